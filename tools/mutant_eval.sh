#!/bin/bash
# tools/mutant_eval.sh <seed-dir> <n> <out-id> <prop> [more props...]
# Applies /tmp/seed/<..>/patch_n.diff to a fresh scratch worktree of /repo HEAD, confirms that the
# unit tests still pass and that the demo fails with / passes without the change, runs the quick
# checks of the given properties against the worktree, stores everything under /verif/seeded/<out-id>/
# and removes the worktree.
set -u
SD="$1"; N="$2"; ID="$3"; shift 3; PROPS="$@"
WT="/tmp/mut-$ID"
OUT="/verif/seeded/$ID"
mkdir -p "$OUT"
git -C /repo worktree remove --force "$WT" >/dev/null 2>&1
git -C /repo worktree add -q --detach "$WT" HEAD || exit 9
cp "$SD/patch_$N.diff" "$OUT/patch.diff"; cp "$SD/demo_$N.py" "$OUT/demo.py"; cp "$SD/meta_$N.json" "$OUT/agent_meta.json" 2>/dev/null
if ! git -C "$WT" apply "$OUT/patch.diff" 2>"$OUT/apply.err"; then echo "APPLY-FAILED $ID"; git -C /repo worktree remove --force "$WT"; exit 8; fi
rm -f "$OUT/apply.err"
( cd "$WT" && PYTHONPATH="$WT/src" timeout 1500 /venv/bin/python -m pytest -q -p no:cacheprovider --timeout=900 tests/unit 2>&1 | tail -1 ) > "$OUT/tests.txt"
( cd /tmp && PYTHONPATH="$WT/src" timeout 600 /venv/bin/python "$OUT/demo.py" >/dev/null 2>&1; echo "demo_with_change_exit=$?" ) > "$OUT/demo.txt"
( cd /tmp && PYTHONPATH="/repo/src" timeout 600 /venv/bin/python "$OUT/demo.py" >/dev/null 2>&1; echo "demo_without_change_exit=$?" ) >> "$OUT/demo.txt"
: > "$OUT/checks.txt"
for P in $PROPS; do
  ( cd /verif && VERIF_REPO="$WT" VERIF_OUT_TAG="mut-$ID" timeout 3000 ./check "$P" quick > "/tmp/mut-$ID-$P.log" 2>&1; rc=$?
    nv=$(grep -c '^VIOLATION' "/tmp/mut-$ID-$P.log"); first=$(grep -m1 '^VIOLATION' "/tmp/mut-$ID-$P.log" | cut -c1-400)
    echo "$P exit=$rc violation_lines=$nv :: $first" ) >> "$OUT/checks.txt"
  rm -f "/tmp/mut-$ID-$P.log"
done
rm -rf "/verif/run/mut-$ID"
git -C /repo worktree remove --force "$WT"
echo "== $ID"; cat "$OUT/tests.txt" "$OUT/demo.txt" "$OUT/checks.txt"
