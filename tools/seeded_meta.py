"""Build seeded/<id>/meta.json from what tools/mutant_eval.sh recorded (tests.txt, demo.txt, checks.txt, agent_meta.json)."""
import json, re, sys
from pathlib import Path
root = Path("/verif/seeded")
summary = []
for d in sorted(root.iterdir()):
    if not d.is_dir() or not (d / "checks.txt").exists():
        continue
    agent = json.loads((d / "agent_meta.json").read_text()) if (d / "agent_meta.json").exists() else {}
    tests = (d / "tests.txt").read_text().strip()
    demo = dict(x.split("=") for x in (d / "demo.txt").read_text().split())
    checks = []
    for line in (d / "checks.txt").read_text().splitlines():
        m = re.match(r"(C\d+) exit=(\d+) violation_lines=(\d+) :: ?(.*)", line)
        if m:
            clause = re.search(r"clause=(\S+)", m.group(4))
            checks.append({"check": m.group(1), "exit": int(m.group(2)), "violation_lines": int(m.group(3)), "first_clause": clause.group(1) if clause else None})
    prop = agent.get("property", d.name.split("_")[0])
    caught_by = [c["check"] for c in checks if c["exit"] == 1]
    meta = {
        "id": d.name,
        "property": prop,
        "summary": agent.get("summary"),
        "needs_to_manifest": agent.get("needs_to_manifest"),
        "files": agent.get("files"),
        "origin": "independent sub-agent given only the property text and a scratch worktree",
        "confirmed": {
            "unit_tests_with_change": tests,
            "demo_exit_with_change": int(demo.get("demo_with_change_exit", -1)),
            "demo_exit_without_change": int(demo.get("demo_without_change_exit", -1)),
        },
        "what_was_run": "tools/mutant_eval.sh: fresh scratch worktree of /repo HEAD under /tmp, git apply patch.diff, tests/unit with PYTHONPATH=<worktree>/src, demo.py with and without the change, then `VERIF_REPO=<worktree> VERIF_OUT_TAG=mut-<id> ./check <Cxx> quick` for the listed checks; worktree removed afterwards",
        "checks": checks,
        "caught_by": caught_by,
    }
    notes = d / "notes.txt"
    if notes.exists():
        meta["notes"] = notes.read_text().strip()
    (d / "meta.json").write_text(json.dumps(meta, indent=1) + "\n")
    summary.append((d.name, prop, caught_by, meta["confirmed"]["demo_exit_with_change"], meta["confirmed"]["demo_exit_without_change"], tests[:12]))
for s in summary:
    print(*s)
