#!/bin/bash
# tools/mutant_recheck.sh <seeded-id> : re-applies seeded/<id>/patch.diff to a scratch worktree of /repo HEAD and re-runs the
# quick check given as second argument (default: the first one listed in seeded/<id>/meta.json, caught_by); prints "<id> <check> exit=<rc>" per check. No unit tests, no demo.
ID="$1"; WT="/tmp/re-$ID"
git -C /repo worktree remove --force "$WT" >/dev/null 2>&1
git -C /repo worktree add -q --detach "$WT" HEAD || exit 9
if ! git -C "$WT" apply "/verif/seeded/$ID/patch.diff" 2>/dev/null; then
  # context drifted through later repairs of the library: try with fuzz before giving up
  if ! ( cd "$WT" && patch -p1 -F3 -s --no-backup-if-mismatch < "/verif/seeded/$ID/patch.diff" >/dev/null 2>&1 ); then echo "$ID APPLY-FAILED"; git -C /repo worktree remove --force "$WT"; exit 8; fi
fi
CHECKS="${2:-$(python3 -c "import json;print(' '.join(json.load(open('/verif/seeded/$ID/meta.json'))['caught_by'][:1]))")}"
for P in $CHECKS; do
  ( cd /verif && VERIF_REPO="$WT" VERIF_OUT_TAG="re-$ID" VERIF_JOBS=4 timeout 3000 ./check "$P" quick > "/tmp/re-$ID-$P.log" 2>&1; echo "$ID $P exit=$? $(grep -m1 -o 'clause=[a-zA-Z_:0-9]*' /tmp/re-$ID-$P.log)" )
  rm -f "/tmp/re-$ID-$P.log"
done
rm -rf "/verif/run/re-$ID"
git -C /repo worktree remove --force "$WT"
