#!/bin/sh
# MANIFEST.setup_cmd: offline install of the contract libraries beside the
# repository's interpreter (/venv) without touching /venv itself.
set -e
cd "$(dirname "$0")"
DEPS="$(pwd)/.deps"
if [ ! -d "$DEPS/icontract" ] || [ ! -d "$DEPS/jsonschema" ]; then
  rm -rf "$DEPS"
  PIP_NO_INDEX=1 /venv/bin/python -m pip install --quiet --no-index \
    --find-links /opt/veriftools/wheels --target "$DEPS" \
    icontract deal jsonschema >/dev/null 2>&1 || \
  PIP_NO_INDEX=1 /venv/bin/python -m pip install --no-index \
    --find-links /opt/veriftools/wheels --target "$DEPS" \
    icontract deal jsonschema
fi
# never let a stray numpy/scipy copy shadow the repository's own packages
rm -rf "$DEPS"/numpy* "$DEPS"/scipy* 2>/dev/null || true
mkdir -p run evidence replays
echo "setup ok: $(ls "$DEPS" | wc -l) entries in .deps"
