import json,glob,sys,os
from collections import Counter
prop=sys.argv[1]; lim=int(sys.argv[2]) if len(sys.argv)>2 else 30
c=Counter(); ex={}
for f in sorted(glob.glob(f'/verif/run/{os.environ.get("TAG","")}/{prop}/*.out.json')):
    for v in json.load(open(f))['violations']:
        k=(v['clause'], v['key']); c[k]+=v['count']; ex.setdefault(k,v)
for k,n in c.most_common(lim):
    print(n, k, str(ex[k]['detail'])[:int(sys.argv[3]) if len(sys.argv)>3 else 500]); print()
for f in sorted(glob.glob(f'/verif/run/{os.environ.get("TAG","")}/{prop}/*.log')):
    s=open(f).read()
    if s.strip(): print(f, s[-1500:]); break
