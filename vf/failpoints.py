"""Failpoints: exceptions injected by the harness at a chosen call index.

Inner steps fail in different ways (a numerical error, an out-of-memory condition in a factorisation, an I/O error of
an out-of-core back-end, a lookup error); the injected failure rotates over these kinds. All class names start with
``InjectedFault`` so that the observer of swallowed exceptions recognises them."""


class InjectedFault(RuntimeError):
    pass


class InjectedFaultMemory(MemoryError):
    pass


class InjectedFaultOS(OSError):
    pass


class InjectedFaultLookup(KeyError):
    pass


KINDS = (InjectedFault, InjectedFaultMemory, InjectedFaultOS, InjectedFaultLookup)


def kind(i: int):
    return KINDS[i % len(KINDS)]
