"""Failpoints: exceptions injected by the harness at a chosen call index."""


class InjectedFault(RuntimeError):
    pass
