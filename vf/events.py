"""Worker-side recorder: what the monitors observed in one shard."""

from __future__ import annotations

import hashlib
import json
import os
import traceback
from collections import Counter

import numpy as np


def digest(a) -> str:
    """sha1 of dtype+shape+bytes of an array-like (full content, not a sum)."""
    a = np.ascontiguousarray(np.asarray(a))
    h = hashlib.sha1()
    h.update(str(a.dtype).encode())
    h.update(str(a.shape).encode())
    h.update(a.tobytes())
    return h.hexdigest()[:16]


def jsonable(x, depth=0):
    if depth > 6:
        return str(x)[:80]
    if isinstance(x, (str, int, float, bool)) or x is None:
        if isinstance(x, float) and (x != x or x in (float("inf"), float("-inf"))):
            return str(x)
        return x
    if isinstance(x, (np.integer,)):
        return int(x)
    if isinstance(x, (np.floating,)):
        return jsonable(float(x))
    if isinstance(x, np.bool_):
        return bool(x)
    if isinstance(x, np.ndarray):
        if x.size <= 64:
            return jsonable(x.tolist(), depth + 1)
        return {"ndarray": list(x.shape), "dtype": str(x.dtype), "digest": digest(x)}
    if isinstance(x, dict):
        return {str(k): jsonable(v, depth + 1) for k, v in x.items()}
    if isinstance(x, (list, tuple, set, frozenset)):
        return [jsonable(v, depth + 1) for v in x]
    return str(x)[:200]


class Recorder:
    MAX_PER_CLAUSE = 4

    def __init__(self, prop: str, spec: dict):
        self.prop = prop
        self.spec = spec
        self.only = spec.get("only")
        self.evaluations = 0
        self.sigs: set = set()
        self.counters: Counter = Counter()
        self.coverage: Counter = Counter()
        self.skipped: Counter = Counter()
        self.samples: list = []
        self.violations: list = []
        self._vcount: Counter = Counter()
        self.case_id = None
        self.events_sample: list = []
        self._seq = 0
        self._log = None
        run_dir = os.environ.get("VERIF_RUN_DIR")
        if run_dir and spec.get("event_log", False):
            self._log = open(os.path.join(run_dir, f"events-{spec.get('shard', 0)}.jsonl"), "w")

    # ---------------------------------------------------------------- cases
    def want(self, case_id) -> bool:
        """True if this case is to be run (replay restricts to one case)."""
        if self.only is not None and jsonable(case_id) != self.only:
            return False
        self.case_id = jsonable(case_id)
        return True

    def sig(self, signature, nontrivial: bool = True, cls: str | None = None):
        """Register the signature of the case being judged."""
        if nontrivial:
            self.sigs.add(json.dumps(jsonable(signature), sort_keys=True))
        if cls is not None:
            self.coverage[cls] += 1

    def sample(self, obj, limit=3):
        if len(self.samples) < limit:
            self.samples.append(jsonable(obj))

    # -------------------------------------------------------------- monitors
    def ok(self, monitor: str, n: int = 1):
        """An oracle evaluation that held."""
        self.evaluations += n
        self.counters[monitor] += n

    def count(self, name: str, n: int = 1):
        self.counters[name] += n

    def skip(self, reason: str, n: int = 1):
        self.skipped[reason] += n

    def violation(self, clause: str, detail, key: str | None = None, case=None, group=None):
        self.evaluations += 1
        self.counters[clause] += 1
        k = (clause, key, group)
        self._vcount[k] += 1
        if self._vcount[k] <= self.MAX_PER_CLAUSE and len(self.violations) < 400:
            self.violations.append(
                {
                    "clause": clause,
                    "key": key,
                    "case": jsonable(self.case_id if case is None else case),
                    "detail": jsonable(detail),
                    "count": 1,
                    "group": jsonable(group),
                }
            )
        else:
            for v in self.violations:
                if v["clause"] == clause and v["key"] == key and v.get("group") == jsonable(group):
                    v["count"] += 1
                    break

    def check(self, cond: bool, clause: str, detail=None, key=None, group=None) -> bool:
        """Judge one oracle evaluation."""
        if cond:
            self.ok(clause)
            return True
        if callable(detail):
            detail = detail()
        if callable(key):
            key = key()
        self.violation(clause, detail, key, group=group)
        return False

    def guarded(self, clause: str, fn, key=None, unsupported=()):
        """Run ``fn``; an exception inside the property's quantifier is a violation
        of a clause that promises a result."""
        try:
            return True, fn()
        except unsupported as e:  # documented narrower domain
            self.skip(f"unsupported:{clause}:{type(e).__name__}")
            return False, None
        except Exception as e:  # noqa
            tb = traceback.extract_tb(e.__traceback__)
            where = ""
            for fr in reversed(tb):
                if "/darsia/" in fr.filename:
                    where = f"{os.path.basename(fr.filename)}:{fr.name}"
                    break
            k = key(e, where) if callable(key) else key
            self.violation(
                clause + ":raises", {"exception": f"{type(e).__name__}: {str(e)[:200]}", "where": where}, k
            )
            return False, None

    # ---------------------------------------------------------------- events
    def event(self, op: str, **fields):
        self._seq += 1
        ev = {"seq": self._seq, "op": op}
        ev.update(jsonable(fields))
        if len(self.events_sample) < 6:
            self.events_sample.append(ev)
        if self._log is not None:
            self._log.write(json.dumps(ev) + "\n")
        return ev

    def result(self) -> dict:
        if self._log is not None:
            self._log.close()
        return {
            "evaluations": self.evaluations,
            "sigs": sorted(self.sigs),
            "counters": dict(self.counters),
            "coverage": dict(self.coverage),
            "skipped": dict(self.skipped),
            "samples": self.samples,
            "violations": self.violations,
            "events_sample": self.events_sample,
        }
