"""Replay the repository's own unit tests under the ambient monitors.

The tests are a workload like any other: what they assert is irrelevant here, the
attached contracts judge every call they make (real photographs, fitted
corrections, the literal grids of the test-suite).  A contract firing here is either
too strict or a defect the tests do not assert.
"""

from __future__ import annotations

import contextlib
import io
import os


def run_repo_tests(R, files, label="repo-tests"):
    import pytest

    repo = os.environ.get("VERIF_REPO", "/repo")
    before = R.evaluations
    cwd = os.getcwd()
    os.chdir(repo)
    try:
        buf = io.StringIO()
        with contextlib.redirect_stdout(buf), contextlib.redirect_stderr(buf):
            rc = pytest.main(["-q", "-p", "no:cacheprovider", "-x", "--no-header", "-W", "ignore"] + [os.path.join(repo, f) for f in files])
    finally:
        os.chdir(cwd)
    R.count("ambient:repo_tests_exit_code_%d" % int(rc))
    R.count("ambient:oracle_evaluations_during_repo_tests", R.evaluations - before)
    R.sig(["repo-tests", files], nontrivial=R.evaluations > before, cls="ambient/repo-tests")
    R.sample({"workload": "repository unit tests under the ambient monitors", "files": files, "pytest_exit": int(rc), "oracle_evaluations": R.evaluations - before})
