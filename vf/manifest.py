"""Regenerate MANIFEST.json from the check modules that exist (python -m vf.manifest)."""
import importlib
import json
from pathlib import Path

ROOT = Path(__file__).resolve().parent.parent
ALL = [f"C{i:02d}" for i in range(1, 21)]
NOT_APPLICABLE = {}  # property -> reason (none expected, see DESIGN.md section 7)


def build():
    checks, na = [], []
    for p in ALL:
        if p in NOT_APPLICABLE:
            na.append({"property_id": p, "reason": NOT_APPLICABLE[p]})
            continue
        try:
            mod = importlib.import_module(f"vf.checks.{p.lower()}")
            M = mod.MANIFEST
        except (ModuleNotFoundError, AttributeError):
            na.append({"property_id": p, "reason": "not claimed yet: its runtime monitor is still being built (runtime monitoring applies; see DESIGN.md section 3)"})
            continue
        checks.append(
            {
                "property_id": p,
                "quick_cmd": f"./check {p} quick",
                "thorough_cmd": f"./check {p} thorough",
                "evidence_file": f"/verif/evidence/{p}.json",
                "replay_cmd_template": "./check --replay {path}",
                "engine": "vf",
                "level_claimed": {
                    "category": getattr(mod, "LEVEL", "exploration"),
                    "text": M["level_text"],
                    "design_ref": M.get("design_ref", "DESIGN.md section 3"),
                },
                "level_note": M["level_note"],
                "technique": M["technique"],
            }
        )
    man = {
        "version": 1,
        "setup_cmd": "sh ./setup.sh",
        "hooks": {
            "guard": "DARSIA_VERIF",
            "enable": "No source hooks in /repo. Checks start /venv/bin/python -B workers with PYTHONPATH=/repo/src:/verif:/verif/.deps and DARSIA_VERIF=1; vf.attach then applies icontract contracts, wrappers and sys.monitoring tools to the imported darsia modules. With the variable unset nothing is attached and /repo is byte-identical either way.",
            "baseline_off_cmd": "cd /repo && env -u DARSIA_VERIF /venv/bin/python -m pytest -ra -q -p no:cacheprovider --timeout=900 --continue-on-collection-errors",
            "source_commits": [],
            "add_only": True,
        },
        "engines": [
            {
                "name": "vf",
                "path": "/verif/vf",
                "serves_properties": [c["property_id"] for c in checks],
                "kind_free_text": "runtime monitoring: contracts (icontract) and boundary wrappers on the real darsia functions, reference-model oracles, JSONL history checkers, sys.monitoring exception/call traces, failpoints, snapshot monitors; workloads sharded over fresh interpreter subprocesses",
            }
        ],
        "checks": checks,
        "not_applicable": na,
        "notes": "Exit codes: 0 held on everything observed, 1 VIOLATION (replay file written), 2 INCONCLUSIVE (reach floor missed / worker failure). Known findings: /verif/known_findings.json (never written at run time). VERIF_SEED and VERIF_TIER are honoured; VERIF_REPO may point the workers at another checkout (used only for break tests on scratch worktrees).",
    }
    (ROOT / "MANIFEST.json").write_text(json.dumps(man, indent=1) + "\n")
    return man


if __name__ == "__main__":
    m = build()
    import sys
    sys.path.insert(0, str(ROOT / ".deps"))
    try:
        import jsonschema
        jsonschema.validate(m, json.loads(Path("/root/.vp/MANIFEST.schema.json").read_text()))
        print("MANIFEST valid;", len(m["checks"]), "checks,", len(m["not_applicable"]), "not yet claimed")
    except ImportError:
        print("written (jsonschema not available)")
