"""Workload generators and capture harness for the Wasserstein solvers."""

from __future__ import annotations

import itertools
import sys

import numpy as np

L1 = ["RAVIART_THOMAS", "CONSTANT_SUBCELL_PROJECTION", "CONSTANT_CELL_PROJECTION"]
MOB = ["CELL_BASED", "CELL_BASED_ARITHMETIC", "CELL_BASED_HARMONIC", "SUBCELL_BASED", "FACE_BASED"]


def mass_pair(rng, shape, kind):
    """Integer-valued (hence exactly equal-mass) source / destination arrays."""
    n = int(np.prod(shape))
    if kind == "dense":
        a = rng.integers(1, 10, size=n).astype(float)
        b = rng.permutation(a)
        if np.array_equal(a, b) and n > 1:
            b = np.roll(a, 1)
    elif kind == "compact":
        # support in a sub-box; leaves genuinely zero-flux regions
        a = np.zeros(shape)
        b = np.zeros(shape)
        sub = tuple(slice(0, max(1, s // 2)) for s in shape)
        sub2 = tuple(slice(s - max(1, s // 2), s) for s in shape)
        va = rng.integers(1, 10, size=a[sub].shape).astype(float)
        a[sub] = va
        vb = rng.permutation(va.ravel()).reshape(b[sub2].shape)
        b[sub2] = vb
        return a, b
    elif kind == "single":
        a = np.zeros(n)
        b = np.zeros(n)
        i, j = rng.choice(n, size=2, replace=n < 2)
        v = float(rng.integers(1, 10))
        a[i] = v
        b[j if n > 1 else i] = v
    else:
        raise ValueError(kind)
    return a.reshape(shape), b.reshape(shape)


def images(darsia, a, b, voxel_size):
    shape = a.shape
    dim = len(shape)
    dims = [shape[d] * voxel_size[d] for d in range(dim)]
    kw = dict(space_dim=dim, scalar=True)
    return (darsia.Image(a.copy(), dimensions=list(dims), **kw), darsia.Image(b.copy(), dimensions=list(dims), **kw))


def make_options(darsia, method, l1, mob, formulation="pressure", linear_solver="direct", aa_depth=0, num_iter=6, extra=None):
    opt = {
        "l1_mode": getattr(darsia.L1Mode, l1),
        "mobility_mode": getattr(darsia.MobilityMode, mob),
        "formulation": formulation,
        "linear_solver": linear_solver,
        "num_iter": num_iter,
        "aa_depth": aa_depth,
        "aa_restart": None,
        "return_info": True,
        "verbose": False,
    }
    if linear_solver in ("amg", "cg"):
        opt["linear_solver_options"] = {"atol": 1e-12, "rtol": 1e-12, "maxiter": int(__import__("os").environ.get("VERIF_DBG_MAXITER", "5000"))}
    if method == "bregman_adaptive":
        opt["bregman_update"] = lambda it: it % 2 == 0
    if extra:
        opt.update(extra)
    return opt


def solver_class(darsia, method):
    return darsia.WassersteinDistanceNewton if method == "newton" else darsia.WassersteinDistanceBregman


class Capture:
    """Wrap _solve and linear_solve of one solver object (boundary hooks, no source edit);
    optionally inject a fault at the n-th linear solve; count exceptions swallowed
    inside _solve through sys.monitoring."""

    TOOL = 3

    def __init__(self, w1, fail_at=None, deep=False, fault_kind=0):
        self.w1 = w1
        self.fault_kind = fault_kind  # which kind of exception the failpoint raises (vf.failpoints.KINDS)
        self.fail_at = fail_at
        self.deep = deep  # True: the fault is raised by the back-end's solve() *inside* linear_solve
        # "post": linear solve #fail_at succeeds; the next inner step that evaluates the cost functional
        # (l1_dissipation, i.e. after the iterate has been advanced) raises once
        self.post_armed = False
        self.post_fired = False
        self.linear_calls = []
        self.solve_result = None
        self.swallowed = []
        self.flux_after_call = []  # flux block of every successful linear solve (for truncation oracle)
        orig_ls = w1.linear_solve
        orig_solve = w1._solve
        cap = self

        def linear_solve(matrix, rhs, *a, **k):
            idx = len(cap.linear_calls)
            if cap.fail_at is not None and idx == cap.fail_at and cap.deep == "nan":
                # silent breakdown of the back-end: it returns a vector of NaN without raising (what scipy's cg does
                # when rho_prev == 0, observed on a degenerate 1-D system)
                out = orig_ls(matrix, rhs, *a, **k)
                out[0][:] = np.nan
                cap.linear_calls.append({"index": idx, "raised": False, "depth": "nan-returned"})
                cap.post_fired = True
                return out
            if cap.fail_at is not None and idx == cap.fail_at and cap.deep == "post":
                out = orig_ls(matrix, rhs, *a, **k)
                cap.linear_calls.append({"index": idx, "raised": False, "depth": "post-armed"})
                cap.post_armed = True
                return out
            if cap.fail_at is not None and idx == cap.fail_at:
                from vf.failpoints import KINDS, kind

                InjectedFault = kind(cap.fault_kind)
                if not cap.deep:
                    cap.linear_calls.append({"index": idx, "raised": True, "depth": "boundary"})
                    raise InjectedFault(f"injected failure of linear solve #{idx}")
                # deep failpoint: everything linear_solve does before handing the system to its back-end
                # runs for real; the back-end object's solve() raises (once), then the real back-end is restored
                state = {"fired": False, "real": None}

                class FailingBackend:
                    def __init__(self_, real):
                        self_.real = real

                    def solve(self_, *aa, **kk):
                        state["fired"] = True
                        raise InjectedFault(f"injected failure inside the back-end of linear solve #{idx}")

                    def __getattr__(self_, name):
                        return getattr(self_.real, name)

                originals = {}
                if hasattr(w1, "linear_solver"):
                    state["real"] = w1.linear_solver
                    w1.linear_solver = FailingBackend(w1.linear_solver)
                for nm in ("setup_direct_solver", "setup_amg_solver", "setup_cg_solver"):
                    orig_setup = getattr(w1, nm)
                    originals[nm] = orig_setup

                    def patched(matrix_, _orig=orig_setup):
                        _orig(matrix_)
                        state["real"] = w1.linear_solver
                        w1.linear_solver = FailingBackend(w1.linear_solver)

                    setattr(w1, nm, patched)
                try:
                    out = orig_ls(matrix, rhs, *a, **k)
                    cap.linear_calls.append({"index": idx, "raised": False, "depth": "deep-not-fired"})
                    return out
                except KINDS:
                    cap.linear_calls.append({"index": idx, "raised": True, "depth": "deep"})
                    raise
                finally:
                    for nm, fn in originals.items():
                        try:
                            delattr(w1, nm)
                        except AttributeError:
                            pass
                    if state["real"] is not None:
                        w1.linear_solver = state["real"]
            out = orig_ls(matrix, rhs, *a, **k)
            rec = {"index": idx, "raised": False}
            try:
                nf = w1.grid.num_faces
                dg = np.abs(matrix.diagonal()[:nf])
                # coefficient range of the flux block, also relative to the unit-mobility entry (cell volume):
                # eps-regularised mobilities on vanishing flux norms give entries ~1e15 x volume
                vol = float(np.prod(w1.grid.voxel_size))
                if nf and dg.min() > 0:
                    rec["contrast"] = float(max(dg.max() / dg.min(), dg.max() / vol, vol / dg.min()))
                else:
                    rec["contrast"] = float("inf") if nf else 1.0
                r = matrix @ out[0] - rhs
                rec["residual"] = float(np.max(np.abs(r))) if np.all(np.isfinite(r)) else float("inf")
            except Exception:
                pass
            cap.linear_calls.append(rec)
            return out

        def _solve(flat_mass_diff):
            code = type(w1)._solve.__code__
            mon = sys.monitoring
            handled = []

            def on_handled(c, off, exc):
                if c is code:
                    handled.append(f"{type(exc).__name__}: {str(exc)[:120]}")

            try:
                mon.use_tool_id(cap.TOOL, "vf-c04")
                owns = True
            except ValueError:
                owns = False
            if owns:
                mon.register_callback(cap.TOOL, mon.events.EXCEPTION_HANDLED, on_handled)
                mon.set_events(cap.TOOL, mon.events.EXCEPTION_HANDLED)
            try:
                res = orig_solve(flat_mass_diff)
            finally:
                if owns:
                    mon.set_events(cap.TOOL, 0)
                    mon.register_callback(cap.TOOL, mon.events.EXCEPTION_HANDLED, None)
                    mon.free_tool_id(cap.TOOL)
            cap.swallowed = handled
            cap.monitoring = owns
            cap.solve_result = res
            return res

        w1.linear_solve = linear_solve
        w1._solve = _solve
        orig_l1 = w1.l1_dissipation

        def l1_dissipation(*a, **k):
            if cap.post_armed and not cap.post_fired:
                from vf.failpoints import kind

                InjectedFault = kind(cap.fault_kind)
                cap.post_fired = True
                raise InjectedFault(f"injected failure of the cost evaluation after linear solve #{cap.fail_at}")
            return orig_l1(*a, **k)

        if deep == "post":
            w1.l1_dissipation = l1_dissipation
        # observe the Anderson mixing: amplification |out| / |in| of every application
        self.aa_amplification = 0.0
        self.aa_singular = False  # least-squares matrix singular relative to the increment
        if getattr(w1, "anderson", None) is not None:
            inner = w1.anderson

            class AAProxy:
                def __call__(self_, gk, fk, iteration):
                    out = inner(gk, fk, iteration)
                    try:
                        mk = min(inner._inner_iteration, inner._depth)
                        if mk > 0:
                            sv = np.linalg.svd(inner._Fk[:, 0:mk], compute_uv=False)
                            if sv.min() < 1e-10 * float(np.linalg.norm(fk)) or not np.isfinite(sv.min()):
                                cap.aa_singular = True
                    except Exception:
                        pass
                    ng = float(np.linalg.norm(gk))
                    if ng > 0 and np.all(np.isfinite(out)):
                        cap.aa_amplification = max(cap.aa_amplification, float(np.linalg.norm(out)) / ng)
                    elif not np.all(np.isfinite(out)):
                        cap.aa_amplification = float("inf")
                    return out

                def __getattr__(self_, name):
                    return getattr(inner, name)

            w1.anderson = AAProxy()


def option_lattice(tier):
    """(method, l1, mobility, formulation, back-end, aa) tuples."""
    methods = ["newton", "bregman", "bregman_adaptive"]
    forms = [("pressure", "direct"), ("full", "direct"), ("flux_reduced", "direct"), ("pressure", "amg"), ("pressure", "cg"),
             ("flux_reduced", "amg"), ("flux_reduced", "cg")]
    full = list(itertools.product(methods, L1, MOB, forms, [0, 2]))
    return full
