"""Seeded generators of darsia images over the metadata space."""

from __future__ import annotations

from datetime import datetime, timedelta

import numpy as np


def rng_for(seed: int, prop: str, shard: int, extra: int = 0):
    return np.random.default_rng([int(seed), int(prop[1:]), int(shard), int(extra)])


def random_shape(rng, space_dim, lo=1, hi=6):
    return tuple(int(rng.integers(lo, hi + 1)) for _ in range(space_dim))


def random_dimensions(rng, space_dim, decades=(-4, 4)):
    return [float(10.0 ** rng.uniform(*decades)) for _ in range(space_dim)]


def make_image(
    rng,
    space_dim=2,
    shape=None,
    payload="scalar",  # scalar | vector
    series=False,
    dtype=np.float64,
    origin_kind="default",  # default | user | far
    dimensions=None,
    time_kind="none",  # none | date | time
    nt=3,
    nc=3,
    cls=None,
    name=None,
    integer_valued=False,
):
    """Build a darsia.Image and a plain description of how it was built."""
    import darsia

    if shape is None:
        shape = random_shape(rng, space_dim)
    if dimensions is None:
        dimensions = random_dimensions(rng, space_dim)
    full = tuple(shape) + ((nt,) if series else ()) + ((nc,) if payload == "vector" else ())
    if np.dtype(dtype) == np.bool_:
        arr = rng.random(full) > 0.5
    elif np.issubdtype(np.dtype(dtype), np.integer):
        arr = rng.integers(0, np.iinfo(dtype).max, size=full, endpoint=True).astype(dtype)
    elif integer_valued:
        arr = rng.integers(-50, 50, size=full).astype(dtype)
    else:
        arr = rng.standard_normal(full).astype(dtype)
    kw = dict(
        space_dim=space_dim,
        dimensions=list(dimensions),
        scalar=(payload == "scalar"),
        series=bool(series),
    )
    h = [dimensions[d] / shape[d] for d in range(space_dim)]
    if origin_kind == "user":
        kw["origin"] = [float(rng.uniform(-10, 10) * dimensions[min(d, space_dim - 1)]) for d in range(space_dim)]
    elif origin_kind == "far":
        # up to 1e6 voxel sizes away
        kw["origin"] = [
            float(rng.choice([-1, 1]) * 10.0 ** rng.uniform(3, 6) * h[min(d, space_dim - 1)]) for d in range(space_dim)
        ]
    base = datetime(2023, 5, 17, 12, 0, 0)
    if time_kind == "date":
        if series:
            # spans from seconds to several days, with fractional seconds
            steps = np.cumsum(rng.integers(1, int(rng.choice([5000, 400000])), size=nt))
            kw["date"] = [base + timedelta(seconds=int(s), microseconds=int(rng.integers(0, 10**6))) for s in steps]
        else:
            kw["date"] = base + timedelta(seconds=int(rng.integers(0, 10000)))
    elif time_kind == "time":
        if series:
            kw["time"] = [float(t) for t in np.cumsum(rng.integers(1, 50, size=nt))]
            if rng.random() < 0.5:
                kw["time"] = [t - kw["time"][0] for t in kw["time"]]  # starting at exactly 0
        else:
            kw["time"] = float(rng.integers(0, 100))
    if name is not None:
        kw["name"] = name
    ctor = cls or darsia.Image
    img = ctor(img=arr, **kw)
    desc = {
        "space_dim": space_dim,
        "shape": list(shape),
        "payload": payload,
        "series": bool(series),
        "dtype": str(np.dtype(dtype)),
        "origin_kind": origin_kind,
        "dimensions": list(dimensions),
        "origin": [float(x) for x in np.asarray(img.origin)],
        "time_kind": time_kind,
    }
    return img, desc
