"""One shard = one fresh interpreter running the real code under monitors."""

from __future__ import annotations

import importlib
import json
import os
import sys
import warnings


def main(argv):
    prop, spec_path, out_path = argv
    spec = json.loads(open(spec_path).read())
    warnings.filterwarnings("ignore")
    import darsia  # the code under test

    repo = os.environ.get("VERIF_REPO", "/repo")
    if not os.path.realpath(darsia.__file__).startswith(os.path.realpath(repo) + "/src"):
        print(f"darsia imported from {darsia.__file__}, not from {repo}/src", file=sys.stderr)
        return 3
    from vf.events import Recorder

    mod = importlib.import_module(f"vf.checks.{prop.lower()}")
    R = Recorder(prop, spec)
    crashed = None
    try:
        mod.run_shard(spec, R)
    except Exception:  # a monitor/workload bug: keep what was observed, report the crash
        import traceback

        crashed = traceback.format_exc()[-1500:]
        print(crashed, file=sys.stderr)
    res = R.result()
    res["crashed"] = crashed
    with open(out_path, "w") as f:
        json.dump(res, f, default=str)
    return 0


if __name__ == "__main__":
    sys.exit(main(sys.argv[1:]))
