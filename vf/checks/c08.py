"""C08 - all linear-solve formulations and back-ends solve the same system.

Monitor: boundary wrapper on the real ``VariationalWassersteinDistance.linear_solve``
(every return is judged against a dense ``numpy.linalg.solve`` of the full mixed
system assembled independently from the loop operators of vf.oracles.gridmodel,
and against the residual of that original system), plus construction of the solver
for each documented formulation name and an end-to-end comparison of distances.
"""

from __future__ import annotations

import numpy as np

from vf.oracles.gridmodel import GridModel, all_shapes

LEVEL = "exploration"
EXHAUSTIVE = {"quick": False, "thorough": True}
RULE = (
    "grid shapes of the C07 range with >= 2 cells (thorough: all 185; quick: every 1-D, every n x 1 / 1 x n, 2x2 and "
    "single-cell-axis 3-D shapes plus a rotating sample, ~60) x {full, flux_reduced, pressure} x {direct, amg, cg} "
    "(full only with direct, as documented) x positive face weights 10^U(-1.5,1.5) x random right-hand sides (arbitrary "
    "flux block, zero-mean mass block, zero multiplier entry) x reuse pattern (fresh, same matrix + reuse_solver=True, "
    "new matrix + reuse_solver=False). distinct = (shape, formulation, back-end, reuse step); non-trivial = grid has a face"
)
TOLERANCES = {
    "direct": "1e-9 * max|reference solution| per block, residual 1e-9 * |rhs|",
    "amg / cg (run with atol=rtol=1e-12, maxiter=5000)": "1e-6 * max|reference solution|, residual 1e-6 * |rhs|",
    "end-to-end distances": "1e-6 relative (the linear solves themselves are judged at 1e-9 / 1e-6 above)",
    "iterative back-ends with default options (documented rtol 1e-6), rhs scaled by 1, 1e-3, 1e-6, 1e-9": "residual of the full system <= 1e-4 * |rhs|",
}
ASSUMPTIONS = [
    "the reference cell is the one the solver advertises (constrained_cell_flat_index)",
    "the mixed system is [[W M_f, -div^T, 0], [div, 0, -c^T], [0, c, 0]] with diagonal flux block (class docstrings)",
]
FLOORS = {
    "quick": {"end_to_end_bregman": 100, "transposed_grid_solved_before": 30, "rhs_object_reused": 300, "second_grid_same_shape": 300, "tiny_weight_scale_systems": 250, "solves_same_system": 900, "satisfies_full_system": 900, "formulation_usable": 300, "end_to_end_same_distance": 100, "default_tolerance_relative_residual": 800},
    "thorough": {"end_to_end_bregman": 400, "transposed_grid_solved_before": 100, "rhs_object_reused": 1000, "second_grid_same_shape": 1000, "tiny_weight_scale_systems": 700, "solves_same_system": 3000, "satisfies_full_system": 3000, "formulation_usable": 1000, "end_to_end_same_distance": 400, "default_tolerance_relative_residual": 2500},
}
COMBOS = [("full", "direct"), ("flux_reduced", "direct"), ("pressure", "direct"), ("flux_reduced", "amg"), ("pressure", "amg"),
          ("flux_reduced", "cg"), ("pressure", "cg")]


def shards(tier, seed):
    shapes = [s for s in all_shapes() if int(np.prod(s)) >= 2]
    if tier == "quick":
        must = [s for s in shapes if len(s) == 1 or (len(s) == 2 and (1 in s or s == (2, 2))) or (len(s) == 3 and 1 in s and max(s) <= 3)]
        must += [(5, 5, 5), (5, 4, 5)]  # more than 100 cells: the iterative back-ends build a genuine multilevel hierarchy
        rest = [s for s in shapes if s not in must]
        rng = np.random.default_rng([seed, 8])
        pick = [rest[i] for i in rng.choice(len(rest), size=24, replace=False)]
        shapes = must + pick
    k = 16
    return [{"shard": i, "shapes": [list(s) for s in shapes[i::k]]} for i in range(k)]


def known_key(formulation, exc_text=""):
    return None


def multilevel_key(formulation, backend, num_cells):
    """Mechanism of the recorded finding: iterative back-end on the indefinite flux-reduced
    saddle-point system once pyamg builds a genuine hierarchy (size > max_coarse = 100)."""
    if formulation == "flux_reduced" and backend in ("amg", "cg") and num_cells + 1 > 100:
        return "C08:flux_reduced_iterative_backend_diverges_multilevel"
    return None


def run_shard(spec, R):
    import darsia

    from vf.checks import c07
    from vf.gen import wass
    from vf.gen.images import rng_for
    from vf.snapshots import snap

    c07.attach(R, ["c08-workload"])
    for shape in spec["shapes"]:
        shape = tuple(shape)
        rng = rng_for(spec["seed"], "C08", spec["shard"], spec["shapes"].index(list(shape)))
        dim = len(shape)
        h = [float(10 ** rng.uniform(-1, 1)) for _ in shape]
        M = GridModel(shape, h)
        nf, nc = M.num_faces, M.num_cells
        Dm = M.divergence_matrix()
        grid = darsia.Grid(shape, list(h))
        dists = {}
        a, b = wass.mass_pair(rng, shape, "dense")
        m1, m2 = wass.images(darsia, a, b, h)
        shared_defaults = {"maxiter": 5000}
        if not R.want([list(shape)]):  # a case is a shape with all its combinations (they share options and grids)
            continue
        # history in the process: solver objects for the transposed grid (same number of cells and faces per axis set,
        # another layout) have been set up and used before the judged objects of this shape are built
        if shape != shape[::-1]:
            pgrid = darsia.Grid(shape[::-1], list(h[::-1]))
            pa, pb = wass.mass_pair(rng, shape[::-1], "dense")
            pm1, pm2 = wass.images(darsia, pa, pb, h[::-1])
            for pform, pback in COMBOS:
                if pback != "direct":
                    continue
                try:
                    darsia.WassersteinDistanceNewton(pgrid, None, wass.make_options(darsia, "newton", "RAVIART_THOMAS", "CELL_BASED", pform, pback, 0, 2))(pm1, pm2)
                except Exception:
                    pass  # the predecessor only provides history; its own results are judged when its shape is the case
            R.count("transposed_grid_solved_before")
        # ... and an AMG solver with its own, user-defined multilevel set-up (non-symmetric smoothers, tiny coarse level)
        try:
            popt = wass.make_options(darsia, "newton", "RAVIART_THOMAS", "CELL_BASED", "pressure", "amg", 0, 2)
            popt["amg_options"] = {"presmoother": ("gauss_seidel", {"sweep": "forward"}), "postsmoother": ("gauss_seidel", {"sweep": "forward"}), "max_coarse": 5}
            darsia.WassersteinDistanceNewton(grid, None, popt)(m1, m2)
        except Exception:
            pass  # history only
        R.count("user_defined_amg_setup_used_before")
        for ci, (formulation, backend) in enumerate(COMBOS):
            rng = rng_for(spec["seed"], "C08", 1000 + spec["shard"], 100 * spec["shapes"].index(list(shape)) + ci)
            case = {"shape": list(shape), "voxel_size": h, "formulation": formulation, "backend": backend}
            key = known_key(formulation)
            mkey = multilevel_key(formulation, backend, nc)
            opt = wass.make_options(darsia, "newton", "RAVIART_THOMAS", "CELL_BASED", formulation, backend, 0, 4)
            if (spec["shapes"].index(list(shape)) + ci) % 2 == 0:
                opt["regularization"] = 1e-7  # a non-default regularisation of the mobility; no part of the linear systems solved here
            opt_before = snap({k: v for k, v in opt.items() if not callable(v)})
            ok, w1 = R.guarded("formulation_usable", lambda: darsia.WassersteinDistanceNewton(grid, None, opt), key=lambda e, w: key)
            if not ok:
                continue
            pinned = int(w1.constrained_cell_flat_index)

            def dense_system(weights):
                A = np.zeros((nf + nc + 1, nf + nc + 1))
                A[:nf, :nf] = np.diag(weights * M.volume)
                A[:nf, nf:nf + nc] = -Dm.T
                A[nf:nf + nc, :nf] = Dm
                A[nf:nf + nc, -1] = -np.eye(nc)[pinned]
                A[-1, nf:nf + nc] = np.eye(nc)[pinned]
                return A

            def lib_matrix(weights):
                import scipy.sparse as sps

                return sps.bmat(
                    [[sps.diags(weights) @ w1.mass_matrix_faces, -w1.div.T, None],
                     [w1.div, None, -w1.pressure_constraint.T],
                     [None, w1.pressure_constraint, None]], format="csc")

            def rhs_vec(s=1.0):
                f = rng.integers(-5, 6, size=nc).astype(float)
                f -= np.round(f.sum() / nc)
                f[0] -= f.sum()  # integer-valued, exactly zero sum
                return np.concatenate([s * rng.standard_normal(nf), M.volume * f, [0.0]])

            # overall magnitude of the face weighting: O(1), or tiny (1e-9, as with sub-millimetre voxels or
            # near-vanishing mobilities); for the tiny scale the reference is computed from the equivalent
            # well-scaled system (weights / s, flux right-hand side / s, pressure * s), which is exact algebra
            wscale = 1e-9 if (backend == "direct" and (spec["shapes"].index(list(shape)) + ci) % 3 == 0) else 1.0
            case["weight_scale"] = wscale

            tol = 1e-9 if backend == "direct" else 1e-6
            wA = wscale * 10 ** rng.uniform(-1.5, 1.5, size=nf)
            wB = wscale * 10 ** rng.uniform(-1.5, 1.5, size=nf)
            steps = [("fresh", wA, False), ("same_matrix_reuse", wA, True), ("new_matrix", wB, False), ("same_matrix_reuse", wB, True), ("same_rhs_object", wB, False)]

            def one_step(label, wts, reuse, rhs, rhs_in, case):
                """One linear_solve on the current solver object, judged; returns False if the call raised."""
                A = dense_system(wts)
                if wscale == 1.0:
                    ref = np.linalg.solve(A, rhs)
                else:
                    rhs0 = rhs.copy()
                    rhs0[:nf] /= wscale
                    ref = np.linalg.solve(dense_system(wts / wscale), rhs0)
                    ref[nf:nf + nc] *= wscale
                    R.count("tiny_weight_scale_systems")
                mat = lib_matrix(wts)
                # the library's own assembly agrees with the independent one
                R.check(np.allclose(mat.toarray(), A, rtol=1e-13, atol=1e-13 * np.max(np.abs(A))), "system_assembly_agrees", case)
                ok, out = R.guarded("formulation_usable", lambda: w1.linear_solve(mat, rhs_in, np.zeros_like(rhs), reuse_solver=reuse), key=lambda e, w: key)
                if not ok:
                    return False
                sol = np.asarray(out[0], float)
                if backend == "amg" and len(getattr(w1, "amg_residual_history", [])) > opt["linear_solver_options"]["maxiter"]:
                    # stand-alone AMG stopped at the iteration cap (5000 V-cycles, strongly anisotropic grid) while still
                    # converging: the solve did not reach its tolerance, so "up to solver tolerance" is not decidable
                    R.skip("amg_iteration_cap_reached_before_tolerance")
                    return True
                good = sol.shape == ref.shape and bool(np.all(np.isfinite(sol)))
                det = {}
                # tiny weights: a reduced formulation forms flux = J^-1 (g + D^T p), whose rounding error is relative to
                # |J^-1 g|, not to the (possibly cancelling) flux itself; the judged scale includes that intermediate
                flux_scale = float(np.max(np.abs(rhs[:nf] / (wts * M.volume)))) if (wscale != 1.0 and nf) else 0.0
                if good:
                    for name, slc in (("flux", slice(0, nf)), ("pressure", slice(nf, nf + nc)), ("multiplier", slice(nf + nc, None))):
                        scale = max(float(np.max(np.abs(ref))), 1e-300, flux_scale)
                        err = float(np.max(np.abs(sol[slc] - ref[slc]))) if sol[slc].size else 0.0
                        det[name] = err / scale
                        if err > tol * scale:
                            good = False
                R.check(good, "solves_same_system", lambda: {**case, "step": label, "relative_errors": det}, key=mkey, group=f"{formulation}/{backend}")
                res = float(np.linalg.norm(A @ sol - rhs)) if sol.shape == ref.shape else float("inf")
                R.check(res <= tol * max(float(np.linalg.norm(rhs)), 1e-300, float(np.linalg.norm(Dm)) * flux_scale) * max(1.0, float(np.linalg.cond(A)) * 1e-3 if backend != "direct" else 1.0),
                        "satisfies_full_system", lambda: {**case, "step": label, "residual": res, "rhs_norm": float(np.linalg.norm(rhs))}, key=mkey, group=f"{formulation}/{backend}")
                R.check(abs(sol[nf + pinned]) <= tol * max(float(np.max(np.abs(ref[nf:nf + nc]))), 1e-300), "pressure_pinned", {**case, "step": label, "p": float(sol[nf + pinned])}, key=mkey)
                R.sig([list(shape), formulation, backend, label], nontrivial=nf > 0, cls=f"{dim}d/{formulation}/{backend}")
                return True

            usable = True
            prev = None
            for si, (label, wts, reuse) in enumerate(steps):
                if label == "same_rhs_object":
                    # the caller solves again with the very array object it handed over before (values as it built them)
                    if prev is None:
                        continue
                    rhs, rhs_in = prev
                    R.count("rhs_object_reused")
                else:
                    rhs = rhs_vec(wscale)
                    rhs_in = rhs.copy()
                if si == 1:
                    # a refused request in between: another matrix together with a right-hand side the solver does not
                    # accept (non-zero multiplier entry); the re-used solver of the accepted matrix is still right
                    bad = rhs_vec(wscale)
                    bad[-1] = 1.0
                    try:
                        w1.linear_solve(lib_matrix(wB), bad, np.zeros_like(bad), reuse_solver=False)
                        accepted = True
                    except Exception:
                        accepted = False
                        R.count("refused_request_in_between")
                    if accepted:
                        # (formulations that accept such a right-hand side have now solved with the other matrix: the
                        # accepted system is solved once more, so that 're-use' again refers to it)
                        rr = rhs_vec(wscale)
                        w1.linear_solve(lib_matrix(wts), rr, np.zeros_like(rr), reuse_solver=False)
                if not one_step(label, wts, reuse, rhs, rhs_in, case):
                    usable = False
                    break
                prev = (rhs, rhs_in)
            if usable and wscale == 1.0:
                # an integer-typed right-hand side (integer masses, integer flux block) is either refused or solved like
                # the same numbers as floats
                rhs_f = np.round(3 * rhs_vec(1.0))
                rhs_f[nf:nf + nc] = np.round(rhs_f[nf:nf + nc] / M.volume)
                rhs_f[nf] -= rhs_f[nf:nf + nc].sum()
                rhs_f[-1] = 0.0
                rhs_i = rhs_f.astype(np.int64)
                matB = lib_matrix(wB)
                try:
                    out_i = w1.linear_solve(matB, rhs_i.copy(), np.zeros_like(rhs_i), reuse_solver=False)
                except Exception:
                    out_i = None
                    R.skip("integer_rhs_refused")
                if out_i is not None:
                    ref_i = np.linalg.solve(dense_system(wB), rhs_f)
                    sol_i = np.asarray(out_i[0], float)
                    sc_i = max(float(np.max(np.abs(ref_i))), 1e-300)
                    R.check(sol_i.shape == ref_i.shape and float(np.max(np.abs(sol_i - ref_i))) <= tol * sc_i * 10, "solves_same_system",
                            lambda: {**case, "step": "integer-typed right-hand side", "result_dtype": str(np.asarray(out_i[0]).dtype), "max_error": float(np.max(np.abs(sol_i - ref_i))) / sc_i}, key=mkey, group=f"{formulation}/{backend}/integer_rhs")
                    R.count("integer_rhs_solved")
            if usable:
                R.ok("formulation_usable")
            # a second solver object on a grid of the same shape but other voxel sizes (nothing derived from the first
            # grid may be carried over)
            if usable and nf > 0:
                saved = (M, Dm, w1, pinned)
                h2 = [float(10 ** rng.uniform(-1, 1)) for _ in shape]
                M = GridModel(shape, h2)
                Dm = M.divergence_matrix()
                ok, w1 = R.guarded("formulation_usable", lambda: darsia.WassersteinDistanceNewton(darsia.Grid(shape, list(h2)), None, opt), key=lambda e, w: key)
                if ok:
                    pinned = int(w1.constrained_cell_flat_index)
                    rhs = rhs_vec(wscale)
                    one_step("second_object_same_shape_other_voxel_sizes", wscale * 10 ** rng.uniform(-1.5, 1.5, size=nf), False, rhs, rhs.copy(), {**case, "voxel_size": h2})
                    R.count("second_grid_same_shape")
                M, Dm, w1, pinned = saved
            # iterative back-ends with their *documented default* tolerances (rtol 1e-6) on right-hand sides of
            # very different magnitude: the relative residual of the original full system must stay small
            if backend in ("amg", "cg") and mkey is None:
                optd = dict(opt)
                # default tolerances; only the iteration cap is lifted (stand-alone AMG needs several hundred
                # V-cycles on anisotropic 3-D grids; hitting the documented default cap of 100 is not judged)
                # one nested dictionary serves the amg and the cg objects of this shape, as in a script that builds its
                # options once and only switches "linear_solver"
                optd["linear_solver_options"] = shared_defaults
                optd_before = snap({k: v for k, v in optd.items() if not callable(v)})
                ok, wd = R.guarded("formulation_usable", lambda: darsia.WassersteinDistanceNewton(grid, None, optd), key=lambda e, w: key)
                if ok:
                    for scale in (1.0, 1e-3, 1e-6, 1e-9):
                        rhs = rhs_vec() * scale
                        A = dense_system(wA)
                        ok, out = R.guarded("formulation_usable", lambda: wd.linear_solve(lib_matrix(wA), rhs.copy(), np.zeros_like(rhs), reuse_solver=False), key=lambda e, w: key)
                        if ok:
                            sol = np.asarray(out[0], float)
                            res = float(np.linalg.norm(A @ sol - rhs)) if np.all(np.isfinite(sol)) else float("inf")
                            R.check(res <= 1e-4 * float(np.linalg.norm(rhs)), "default_tolerance_relative_residual",
                                    lambda: {**case, "rhs_scale": scale, "relative_residual": res / max(float(np.linalg.norm(rhs)), 1e-300)}, group=f"{formulation}/{backend}")
                    if snap({k: v for k, v in optd.items() if not callable(v)}) != optd_before:
                        R.count("observation:options_modified_by_library")
            # the options (incl. the nested linear-solver options) are the caller's: unchanged after construction and solves
            # (observation only - leaving arguments untouched is C17's business; here a modified dictionary matters
            # through what it does to the next solver that is given the same dictionary, see the shared defaults below)
            if snap({k: v for k, v in opt.items() if not callable(v)}) != opt_before:
                R.count("observation:options_modified_by_library")
            # end-to-end: same fixed number of iterations under each (formulation, back-end)
            ok, wE = R.guarded("formulation_usable", lambda: darsia.WassersteinDistanceNewton(grid, None, dict(opt)), key=lambda e, w: key)
            if ok:
                cap = wass.Capture(wE)
                ok, out = R.guarded("end_to_end", lambda: wE(m1, m2), key=lambda e, w: key)
                if ok and not cap.swallowed:
                    dists[(formulation, backend)] = float(out[0])
                elif ok:
                    # the nonlinear iteration itself broke down (degenerate mobility on exactly zero
                    # fluxes makes the pressure Schur complement singular): no distance to compare;
                    # the honesty of the reported status is C04's business
                    R.skip("end_to_end:iteration_failed:" + cap.swallowed[0][:40])
        # the same for the split Bregman iteration with a penalty other than the default (its Darcy initialisation and
        # its regular steps solve differently weighted systems with one solver object)
        dists_b = {}
        for ci, (formulation, backend) in enumerate(COMBOS):
            key = known_key(formulation)
            optb = wass.make_options(darsia, "bregman", "RAVIART_THOMAS", "CELL_BASED", formulation, backend, 0, 4, {"L": 4.0})
            ok, wB = R.guarded("formulation_usable", lambda: darsia.WassersteinDistanceBregman(grid, None, optb), key=lambda e, w: key)
            if ok:
                capb = wass.Capture(wB)
                ok, outb = R.guarded("end_to_end", lambda: wB(m1, m2), key=lambda e, w: key)
                if ok and not capb.swallowed:
                    dists_b[(formulation, backend)] = float(outb[0])
        if ("full", "direct") in dists_b:
            ref_b = dists_b[("full", "direct")]
            for (formulation, backend), d in dists_b.items():
                R.check(abs(d - ref_b) <= 1e-6 * max(abs(ref_b), 1e-300), "end_to_end_same_distance",
                        {"shape": list(shape), "method": "bregman, L=4", "formulation": formulation, "backend": backend, "distance": d, "full_direct": ref_b},
                        key=multilevel_key(formulation, backend, nc), group="bregman")
                R.count("end_to_end_bregman")
        if ("full", "direct") in dists:
            ref_d = dists[("full", "direct")]
            for (formulation, backend), d in dists.items():
                # a fixed number of Newton steps on an unconverged, nearly degenerate problem amplifies the round-off
                # of the linear solves (measured: 1.7e-9 between two direct formulations on a 1x3x2 grid whose linear
                # solves agree to 1e-13); the linear level is judged tightly above, the distances at 1e-6
                tol = 1e-6
                R.check(abs(d - ref_d) <= tol * max(abs(ref_d), 1e-300), "end_to_end_same_distance",
                        {"shape": list(shape), "formulation": formulation, "backend": backend, "distance": d, "full_direct": ref_d},
                        key=multilevel_key(formulation, backend, nc))
        if spec["shapes"].index(list(shape)) < 1:
            R.sample({"shape": list(shape), "voxel_size": h, "combos": [list(c) for c in COMBOS], "distances": {f"{k[0]}/{k[1]}": v for k, v in dists.items()}})


MANIFEST = {
    "technique": "boundary monitor on the real linear_solve judged against an independent dense solve of the full mixed system (loop-assembled operators) and its residual; enumeration of shapes x formulations x back-ends x reuse patterns",
    "level_text": "For every grid shape (all 185 with >= 2 cells in the thorough tier) and every (formulation, back-end) pair the API documents, a solver object is built and its linear_solve is called on a sequence of systems with random positive face weights and right-hand sides (fresh / same matrix with reused factorisation / new matrix); each returned vector is compared block by block with numpy.linalg.solve of an independently assembled dense system and substituted into that original system. One end-to-end run per combination compares the distances.",
    "level_note": "Right-hand sides and weights are sampled; iterative back-ends are run with tightened tolerances and judged at 1e-6; the reference cell index is read from the solver object.",
    "design_ref": "DESIGN.md section 3, C08",
}
