"""C11 - resampling and axis reduction conserve integrals.

Monitors: boundary monitors on Resize.__call__ / darsia.resize,
uniform_refinement, AxisReduction.__call__ / reduce_axis, extrude_along_axis
and superpose: every returned image is judged against the input through an
independent integral oracle (math.fsum of data x voxel volume, per trailing
index) and the stated array identities.
"""

from __future__ import annotations

import itertools
import math

import numpy as np

LEVEL = "exploration"
EXHAUSTIVE = {"quick": False, "thorough": False}
RULE = (
    "resize: 2-D shapes 1..24 incl. odd extents, float32/float64, scalar/vector/series, array and Image input; target shapes "
    "with both extents not larger (any ratio) or integer multiples x2, x3 (no mixed directions), area interpolation with and "
    "without the 'resize conservative' flag; refinement: levels -3..3 on 1-3-D images (odd extents: only the constant-image "
    "clause, see ASSUMPTIONS); axis reduction: every axis of 2-D and 3-D images by index and by Cartesian name, modes sum and "
    "average; extrusion of 2-D images; superposition of 1..4 scalar 2-D images (single and series) on one voxel size at "
    "offsets that are integer multiples of it (binary fractions). distinct = (operation, shapes, payload, dtype, option); "
    "non-trivial = the output grid differs from the input grid (or more than one image is superposed)"
)
TOLERANCES = {
    "resize (OpenCV area weights are float32)": "1e-5 relative to sum|data| * volume for float64, 1e-4 for float32",
    "refinement / coarsening / axis reduction / extrusion": "1e-12 relative (float64), 1e-5 (float32); array identities bitwise where data is only moved",
    "superpose (float32 warp)": "1e-6 relative to max|data|",
}
ASSUMPTIONS = [
    "coarsening an odd extent has no implementation-independent integral; only 'a constant image stays that constant' is demanded there",
    "integral = sum over voxels of data * prod(dimensions / shape), per time step and component",
]
FLOORS = {
    "quick": {"resize_with_blank_slab": 60, "reduction_object_reused": 300, "resize_conserves": 500, "resize_by_factors": 200, "resize_object_reused": 150, "resize_options_with_key_prefix": 120, "image_born_as_uint8_then_converted": 150, "refine_coarsen_identity": 100, "coarsen_conserves": 100, "axis_reduction": 400, "extrusion": 60, "superpose": 150},
    "thorough": {"resize_with_blank_slab": 600, "reduction_object_reused": 3000, "resize_conserves": 6000, "resize_by_factors": 2000, "resize_object_reused": 1500, "resize_options_with_key_prefix": 1200, "image_born_as_uint8_then_converted": 1500, "refine_coarsen_identity": 1200, "coarsen_conserves": 1200, "axis_reduction": 5000, "extrusion": 700, "superpose": 1800},
}


def shards(tier, seed):
    k = 16
    n = 100 if tier == "quick" else 1200
    return [{"shard": i, "n": n // k + 1} for i in range(k)]


def copy_meta(img):
    import copy

    return copy.deepcopy(img.metadata())


def integral(arr, dims, dim):
    """Physical integral per trailing index."""
    shape = arr.shape[:dim]
    vol = float(np.prod([dims[d] / shape[d] for d in range(dim)]))
    flat = arr.reshape((int(np.prod(shape)),) + arr.shape[dim:]).astype(float)
    tr = arr.shape[dim:]
    if not tr:
        return np.asarray(math.fsum(flat.tolist()) * vol), np.asarray(math.fsum(np.abs(flat).tolist()) * vol)
    out = np.zeros(tr)
    mag = np.zeros(tr)
    for t in itertools.product(*[range(n) for n in tr]):
        col = flat[(slice(None),) + t]
        out[t] = math.fsum(col.tolist()) * vol
        mag[t] = math.fsum(np.abs(col).tolist()) * vol
    return out, mag


def run_shard(spec, R):
    import darsia

    from vf.gen.images import rng_for
    from vf.snapshots import snap as snap_of

    for n in range(spec["n"]):
        if not R.want(["case", n]):
            continue
        rng = rng_for(spec["seed"], "C11", spec["shard"], n)

        meta_of, keep_alive = {}, []

        def image(shape, dims=None, payload="scalar", dtype=np.float64, origin=None):
            dim = len(shape)
            tr = {"scalar": (), "vector": (3,), "series": (4,)}[payload]
            arr = rng.standard_normal(tuple(shape) + tr).astype(dtype)
            dims = dims or [float(2.0 ** rng.integers(-3, 4)) * shape[d] for d in range(dim)]
            kw = dict(space_dim=dim, dimensions=list(dims), scalar=payload in ("scalar", "series"), series=payload == "series")
            if payload == "series":
                kw["time"] = [0.0, 1.0, 2.0, 3.0]
            if origin is not None:
                kw["origin"] = origin
            if rng.random() < 0.2:
                # history of the image: constructed from 8-bit data, converted to the float type, filled with the
                # (fractional) float data; the dtype it was born with must not matter any more
                born = darsia.Image(rng.integers(0, 255, size=arr.shape).astype(np.uint8), **kw)
                conv = born.astype(dtype)
                conv.img = arr.copy()
                R.count("image_born_as_uint8_then_converted")
                meta_of[id(conv)] = snap_of(conv.metadata())
                keep_alive.append(conv)
                return conv, arr.copy(), dims
            made = darsia.Image(arr, **kw)
            meta_of[id(made)] = snap_of(made.metadata())  # deep snapshot of the metadata (incl. the dimensions list) at birth
            keep_alive.append(made)
            return made, arr.copy(), dims

        # ================================================================ resize
        for rep in range(4):
            payload = str(rng.choice(["scalar", "vector", "series"]))
            dtype = [np.float64, np.float32][int(rng.integers(0, 2))]
            shape = (int(rng.integers(1, 25)), int(rng.integers(1, 25)))
            img, arr, dims = image(shape, payload=payload, dtype=dtype)
            if payload != "scalar" and rng.random() < 0.4:
                # a blank frame / a component that vanishes identically (sum exactly zero)
                img.img[..., 0] = 0
                arr[..., 0] = 0
                R.count("resize_with_blank_slab")
            if rng.random() < 0.6:
                tshape = (int(rng.integers(1, shape[0] + 1)), int(rng.integers(1, shape[1] + 1)))
                kind = "down"
            else:
                f = int(rng.choice([2, 3]))
                g = int(rng.choice([1, 2, 3]))
                tshape = (shape[0] * f, shape[1] * g)
                kind = "up"
            conservative = bool(rng.integers(0, 2))
            as_array = bool(rng.random() < 0.3)
            case = {"op": "resize", "shape": list(shape), "target": list(tshape), "payload": payload, "dtype": np.dtype(dtype).name,
                    "conservative": conservative, "array_input": as_array}
            kw = {"resize conservative": True} if conservative else {}
            arg = arr.copy() if as_array else img
            use_fn = (not conservative) and (not as_array) and rng.random() < 0.3
            if use_fn:
                ok, out = R.guarded("resize", lambda: darsia.resize(arg, shape=tshape, interpolation="inter_area"))
            else:
                # the options are given directly, or all through the keyword dictionary with a key prefix (as the
                # preprocessing of other tools does, e.g. key="emd ")
                prefix = ["", "", "emd ", "pre "][int(rng.integers(0, 4))]
                case["options_prefix"] = prefix
                if prefix:
                    opts = {prefix + "resize shape": tshape, prefix + "resize interpolation": "inter_area"}
                    if conservative:
                        opts[prefix + "resize conservative"] = True
                    R.count("resize_options_with_key_prefix")
                    ok, rz = R.guarded("resize", lambda: darsia.Resize(key=prefix, **opts))
                else:
                    ok, rz = R.guarded("resize", lambda: darsia.Resize(shape=tshape, interpolation="inter_area", **kw))
                if ok and rng.random() < 0.6:
                    # the resize object has a history: it served an input of another shape before (pure down-sampling
                    # from an integer multiple of the target); that earlier call is judged as well
                    wshape = (tshape[0] * int(rng.integers(1, 4)), tshape[1] * int(rng.integers(1, 4)))
                    warr = rng.uniform(0.1, 1.0, size=wshape)
                    okw, wout = R.guarded("resize", lambda: rz(warr.copy()))
                    if okw:
                        case["earlier_call_shape"] = list(wshape)
                        R.count("resize_object_reused")
                        if conservative:
                            R.check(wout.shape == tuple(tshape) and abs(float(np.sum(wout)) - float(np.sum(warr))) <= 1e-5 * float(np.sum(warr)), "resize_conserves",
                                    lambda: {**case, "what": "earlier call", "sum_in": float(np.sum(warr)), "sum_out": float(np.sum(wout))}, group=f"warm/{conservative}")
                if ok:
                    ok, out = R.guarded("resize", lambda: rz(arg))
            if ok:
                R.check(np.array_equal(arg if as_array else img.img, arr), "input_untouched", case)
                oarr = out if as_array else out.img
                rt = 1e-5 if dtype == np.float64 else 1e-4
                good = oarr.shape == tuple(tshape) + arr.shape[2:]
                if good:
                    if conservative:
                        s_in = np.sum(arr.astype(float), axis=(0, 1))
                        s_out = np.sum(oarr.astype(float), axis=(0, 1))
                        mag = np.sum(np.abs(arr.astype(float)), axis=(0, 1))
                        good = bool(np.all(np.abs(s_out - s_in) <= rt * np.maximum(mag, 1e-300)))
                        det = {"sum_in": np.asarray(s_in).tolist(), "sum_out": np.asarray(s_out).tolist()}
                    else:
                        i_in, mag = integral(arr, dims, 2)
                        i_out, _ = integral(oarr, dims, 2)
                        good = bool(np.all(np.abs(i_out - i_in) <= rt * np.maximum(mag, 1e-300)))
                        det = {"integral_in": np.asarray(i_in).tolist(), "integral_out": np.asarray(i_out).tolist()}
                else:
                    det = {"out_shape": list(oarr.shape)}
                R.check(good, "resize_conserves", lambda: {**case, **det}, group=f"{kind}/{conservative}")
                if not as_array:
                    R.check(list(out.dimensions) == list(dims) and np.array_equal(np.asarray(out.origin), np.asarray(img.origin)) and type(out) is type(img),
                            "resize_keeps_extent", case)
                    # observed through the library's own geometry as well (the property's observe_at)
                    ok2, gi = R.guarded("geometry_integrate", lambda: darsia.Geometry(**out.shape_metadata()).integrate(out))
                    if ok2 and not conservative:
                        i_in, mag = integral(arr, dims, 2)
                        R.check(bool(np.all(np.abs(np.asarray(gi, float) - i_in) <= rt * np.maximum(mag, 1e-300))), "resize_conserves", {**case, "via": "Geometry.integrate"})
                R.sig(["resize", list(shape), list(tshape), payload, np.dtype(dtype).name, conservative], tshape != shape, cls=f"resize/{kind}/{payload}")

        # ============================== the target given by factors (fx along the columns, fy along the rows): the
        # target shape is the rounded product; pure down-sampling or integer up-sampling as above
        for rep in range(3):
            shape = (int(rng.integers(1, 25)), int(rng.integers(1, 25)))
            if rng.random() < 0.7:
                fy, fx = (float(rng.choice([0.5, 0.25, 0.2, 0.75, 1.0, 1.0 / 3.0])) for _ in range(2))
                kind = "down"
            else:
                fy, fx = (float(rng.choice([1, 2, 3])) for _ in range(2))
                kind = "up"
            tshape = (int(round(fy * shape[0])), int(round(fx * shape[1])))
            if min(tshape) < 1:
                continue
            payload = str(rng.choice(["scalar", "vector", "series"]))
            img, arr, dims = image(shape, payload=payload, dtype=np.float64)
            conservative = bool(rng.integers(0, 2))
            general = fx == fy and rng.random() < 0.5
            opts = {"resize": fx} if general else {"resize x": fx, "resize y": fy}
            if not general and rng.random() < 0.5:
                opts = {"fx": fx, "fy": fy}
            case = {"op": "resize_by_factors", "shape": list(shape), "options": dict(opts), "expected_target": list(tshape), "payload": payload, "conservative": conservative,
                    "products_integral": bool(float(fy * shape[0]).is_integer() and float(fx * shape[1]).is_integer())}
            ok, out = R.guarded("resize", lambda: darsia.Resize(interpolation="inter_area", **opts, **({"resize conservative": True} if conservative else {}))(img))
            if ok:
                oarr = out.img
                good = oarr.shape == tuple(tshape) + arr.shape[2:]
                det = {"out_shape": list(oarr.shape)}
                if good:
                    if conservative:
                        s_in, s_out = np.sum(arr, axis=(0, 1)), np.sum(oarr.astype(float), axis=(0, 1))
                        mag = np.sum(np.abs(arr), axis=(0, 1))
                        det = {"sum_in": np.asarray(s_in).tolist(), "sum_out": np.asarray(s_out).tolist()}
                    else:
                        s_in, mag = integral(arr, dims, 2)
                        s_out, _ = integral(oarr, dims, 2)
                        det = {"integral_in": np.asarray(s_in).tolist(), "integral_out": np.asarray(s_out).tolist()}
                    good = bool(np.all(np.abs(s_out - s_in) <= 1e-5 * np.maximum(mag, 1e-300))) and list(out.dimensions) == list(dims)
                R.check(good, "resize_by_factors", lambda: {**case, **det}, group=f"{kind}/{conservative}/{case['products_integral']}")
                R.check(np.array_equal(img.img, arr), "input_untouched", case)
            R.sig(["resize_by_factors", list(shape), fx, fy, conservative], tshape != shape, cls=f"resize_by_factors/{kind}")

        # =================================================== uniform refinement
        for rep in range(3):
            dim = int(rng.choice([1, 2, 2, 3]))
            payload = str(rng.choice(["scalar", "vector", "series"]))
            dtype = [np.float64, np.float32][int(rng.integers(0, 2))]
            levels = int(rng.integers(1, 4 if dim < 3 else 3))
            base = tuple(int(rng.integers(1, 7 if dim < 3 else 4)) for _ in range(dim))
            # (a) refine then coarsen == identity, bitwise
            img, arr, dims = image(base, payload=payload, dtype=dtype)
            case = {"op": "refine_then_coarsen", "shape": list(base), "levels": levels, "payload": payload, "dtype": np.dtype(dtype).name}
            ok, fine = R.guarded("uniform_refinement", lambda: darsia.uniform_refinement(img, levels))
            if ok:
                rt = 1e-12 if dtype == np.float64 else 1e-5
                i_in, mag = integral(arr, dims, dim)
                i_f, _ = integral(fine.img, dims, dim)
                R.check(fine.img.shape[:dim] == tuple(s * 2**levels for s in base) and bool(np.all(np.abs(i_f - i_in) <= rt * np.maximum(mag, 1e-300)))
                        and list(fine.dimensions) == list(dims), "refine_conserves", case)
                R.check(np.array_equal(img.img, arr) and snap_of(img.metadata()) == meta_of[id(img)], "input_untouched", case)
                fine_before = fine.img.copy()
                ok, back = R.guarded("uniform_refinement", lambda: darsia.uniform_refinement(fine, -levels), key=lambda e, w: "C11:coarsening_multi_level_stale_extent" if levels > 1 else None)
                if ok:
                    R.check(back.img.shape == arr.shape and np.array_equal(back.img, arr) and list(back.dimensions) == list(dims), "refine_coarsen_identity",
                            lambda: {**case, "maxdiff": float(np.max(np.abs(back.img.astype(float) - arr))) if back.img.shape == arr.shape else str(back.img.shape)},
                            key="C11:coarsening_multi_level_stale_extent" if levels > 1 else None, group=f"{dim}d/{levels}")
                    R.check(np.array_equal(fine.img, fine_before), "input_untouched", {**case, "step": "coarsening the refined image"})
                R.sig(["refine", dim, list(base), levels, payload], True, cls=f"refine/{dim}d/{payload}")
            # (b) coarsening of divisible extents preserves the integral
            shape = tuple(int(rng.integers(1, 4)) * 2**levels for _ in range(dim))
            img, arr, dims = image(shape, payload=payload, dtype=dtype)
            case = {"op": "coarsen", "shape": list(shape), "levels": -levels, "payload": payload, "dtype": np.dtype(dtype).name}
            ok, coarse = R.guarded("uniform_refinement", lambda: darsia.uniform_refinement(img, -levels), key=lambda e, w: "C11:coarsening_multi_level_stale_extent" if levels > 1 else None)
            if ok:
                rt = 1e-12 if dtype == np.float64 else 1e-5
                i_in, mag = integral(arr, dims, dim)
                good = coarse.img.shape[:dim] == tuple(s // 2**levels for s in shape)
                if good:
                    i_c, _ = integral(coarse.img, dims, dim)
                    good = bool(np.all(np.abs(i_c - i_in) <= rt * np.maximum(mag, 1e-300)))
                R.check(good and list(coarse.dimensions) == list(dims), "coarsen_conserves", lambda: {**case, "out_shape": list(coarse.img.shape)},
                        key="C11:coarsening_multi_level_stale_extent" if levels > 1 else None, group=f"{dim}d/{levels}")
                R.check(np.array_equal(img.img, arr) and snap_of(img.metadata()) == meta_of[id(img)], "input_untouched", case)
                # the same image coarsened once more gives the same result, and the first result is still intact
                first = coarse.img.copy()
                ok, again = R.guarded("uniform_refinement", lambda: darsia.uniform_refinement(img, -levels), key=lambda e, w: "C11:coarsening_multi_level_stale_extent" if levels > 1 else None)
                if ok:
                    R.check(np.array_equal(again.img, first) and np.array_equal(coarse.img, first), "coarsen_conserves", {**case, "what": "second coarsening of the same image"},
                            key="C11:coarsening_multi_level_stale_extent" if levels > 1 else None, group=f"{dim}d/{levels}")
                R.sig(["coarsen", dim, list(shape), levels, payload], True, cls=f"coarsen/{dim}d/{payload}")
            # (c) any extent: a constant image stays that constant
            shape = tuple(int(rng.integers(1, 12)) for _ in range(dim))
            cval = float(rng.uniform(-3, 3))
            tr = {"scalar": (), "vector": (3,), "series": (4,)}[payload]
            kw = dict(space_dim=dim, dimensions=[float(s) for s in shape], scalar=payload in ("scalar", "series"), series=payload == "series")
            if payload == "series":
                kw["time"] = [0.0, 1.0, 2.0, 3.0]
            cimg = darsia.Image(np.full(tuple(shape) + tr, cval, dtype=np.float64), **kw)
            lv = int(rng.integers(1, 3))
            odd = any((s >> j) % 2 == 1 for s in shape for j in range(lv))
            key = "C11:coarsening_odd_extent_halves_last_entry" if odd else ("C11:coarsening_multi_level_stale_extent" if lv > 1 else None)
            ok, cc = R.guarded("uniform_refinement", lambda: darsia.uniform_refinement(cimg, -lv), key=lambda e, w: key)
            if ok:
                R.check(bool(np.all(cc.img == cval)), "coarsen_constant_stays_constant",
                        lambda: {"op": "coarsen_constant", "shape": list(shape), "levels": -lv, "payload": payload, "value": cval, "min": float(cc.img.min()), "max": float(cc.img.max())},
                        key=key, group=f"{dim}d/{lv}")
                R.sig(["coarsen_const", dim, list(shape), lv], True)
            # ... and non-constant data on the same (possibly odd) extents: the physical integral is preserved
            rimg, rarr, rdims = image(shape, payload=payload, dtype=np.float64)
            ok, rc = R.guarded("uniform_refinement", lambda: darsia.uniform_refinement(rimg, -lv), key=lambda e, w: key)
            if ok:
                i_in, mag = integral(rarr, rdims, dim)
                i_c, _ = integral(rc.img, list(rc.dimensions), dim)
                okey = "C11:coarsening_odd_extent_not_conservative" if odd else None
                R.check(list(rc.dimensions) == list(rdims) and bool(np.all(np.abs(i_c - i_in) <= 1e-12 * np.maximum(mag, 1e-300))), "coarsen_conserves",
                        lambda: {"op": "coarsen", "shape": list(shape), "levels": -lv, "payload": payload, "odd_extent_at_some_level": odd,
                                 "integral_in": np.asarray(i_in).tolist(), "integral_out": np.asarray(i_c).tolist()}, key=okey, group=f"{dim}d/{lv}/any_extent")

        # ======================================================= axis reduction
        for rep in range(3):
            dim = int(rng.choice([2, 3]))
            payload = str(rng.choice(["scalar", "vector", "series"]))
            dtype = [np.float64, np.float32][int(rng.integers(0, 2))]
            shape = tuple(int(rng.integers(1, 7)) for _ in range(dim))
            origin = None if rng.random() < 0.5 else [float(rng.integers(-4, 5)) for _ in range(dim)]
            dec_dims = None
            if rng.random() < 0.5:
                # extents in decimal units on up to 14 voxels: extent / (extent / voxels) is then not always the
                # voxel count in floating point (0.9 / (0.9 / 7) = 6.999...), the layer count is the array's
                shape = tuple(int(rng.integers(1, 15)) for _ in range(dim))
                dec_dims = [float(round(rng.uniform(0.05, 3.0), int(rng.integers(1, 3)))) for _ in range(dim)]
                R.count("reduce_axis_decimal_extents")
                if any(int(d / (d / n)) != n for d, n in zip(dec_dims, shape)):
                    R.count("reduce_axis_extent_over_voxel_size_truncates_below_voxel_count")
            img, arr, dims = image(shape, dims=dec_dims, payload=payload, dtype=dtype, origin=origin)
            names = {2: {0: "y", 1: "x"}, 3: {0: "z", 1: "x", 2: "y"}}[dim]
            for ax in range(dim):
                for mode in ("sum", "average"):
                    for by in ("index", "name", "object"):
                        axis = ax if by != "name" else names[ax]
                        case = {"op": "reduce_axis", "shape": list(shape), "axis": axis, "mode": mode, "payload": payload, "dtype": np.dtype(dtype).name}
                        if by == "object":
                            ar_obj = darsia.AxisReduction(axis=axis, dim=dim, mode=mode)
                            ok, red = R.guarded("reduce_axis", lambda: ar_obj(img))
                            if ok:
                                # the reduction object then serves an image of the same shape on another physical
                                # domain (other extents, another origin), and the first image once more
                                arr_b = rng.uniform(-1, 1, size=arr.shape).astype(arr.dtype)
                                dims_b = [float(d * rng.choice([0.5, 2.0, 3.0])) for d in dims]
                                img_b = type(img)(arr_b.copy(), **{**copy_meta(img), "dimensions": dims_b, "origin": [float(rng.integers(-9, 10)) for _ in range(dim)]})
                                okb, trio = R.guarded("reduce_axis", lambda: (ar_obj(img_b), darsia.reduce_axis(img_b, axis, mode), ar_obj(img)))
                                if okb:
                                    same = lambda u, v: (np.array_equal(u.img, v.img) and list(u.dimensions) == list(v.dimensions)  # noqa: E731
                                                         and np.array_equal(np.asarray(u.origin, float), np.asarray(v.origin, float)) and u.space_dim == v.space_dim)
                                    R.check(same(trio[0], trio[1]) and same(trio[2], red), "axis_reduction",
                                            lambda: {**case, "what": "reduction object re-used on an image of the same shape with other extents and origin",
                                                     "second_image": [list(trio[0].dimensions), np.asarray(trio[0].origin, float).tolist()],
                                                     "fresh_reduction_of_second_image": [list(trio[1].dimensions), np.asarray(trio[1].origin, float).tolist()]}, group=f"{dim}d/{ax}/object_reused")
                                    R.count("reduction_object_reused")
                        else:
                            ok, red = R.guarded("reduce_axis", lambda: darsia.reduce_axis(img, axis, mode))
                        if not ok:
                            continue
                        rt = 1e-12 if dtype == np.float64 else 1e-5
                        exp = np.sum(arr, axis=ax)
                        if mode == "average":
                            exp = exp / shape[ax]
                        good = red.img.shape == exp.shape and bool(np.allclose(red.img, exp, rtol=rt, atol=rt * float(np.max(np.abs(arr)) + 1e-300)))
                        kept = [dims[d] for d in range(dim) if d != ax]
                        good &= list(red.dimensions) == kept and red.space_dim == dim - 1
                        if good and dim - 1 >= 1:
                            i_in, mag = integral(arr, dims, dim)
                            i_out, _ = integral(red.img, kept, dim - 1)
                            factor = (shape[ax] / dims[ax]) if mode == "sum" else (1.0 / dims[ax])
                            good &= bool(np.all(np.abs(i_out - i_in * factor) <= 10 * rt * np.maximum(mag * factor, 1e-300)))
                        R.check(good, "axis_reduction", lambda: {**case, "out_shape": list(red.img.shape), "out_dims": list(red.dimensions)}, group=f"{dim}d/{ax}/{mode}")
                        R.check(np.array_equal(img.img, arr) and snap_of(img.metadata()) == meta_of[id(img)], "input_untouched", case)
                        # the retained axes keep their place: addressing the axis by matrix index, by Cartesian name or
                        # through an AxisReduction object yields the same placement
                        place = (np.asarray(red.origin, float).tolist(), list(red.dimensions))
                        if by == "index":
                            place_ref = place
                        else:
                            R.check(place == place_ref, "axis_reduction", lambda: {**case, "what": "placement differs from reduction by index", "placement": place, "by_index": place_ref},
                                    group=f"{dim}d/{ax}/place")
            R.sig(["reduce", dim, list(shape), payload, np.dtype(dtype).name], True, cls=f"reduce/{dim}d/{payload}")

        # ============================================================ extrusion
        for rep in range(2):
            payload = str(rng.choice(["scalar", "vector", "series"]))
            shape = (int(rng.integers(1, 8)), int(rng.integers(1, 8)))
            img, arr, dims = image(shape, payload=payload)
            height = float(2.0 ** rng.integers(-2, 3))
            num = int(rng.integers(1, 6))
            case = {"op": "extrude", "shape": list(shape), "height": height, "num": num, "payload": payload}
            ok, ex = R.guarded("extrude_along_axis", lambda: darsia.extrude_along_axis(img, height, num))
            if ok:
                good = ex.img.shape == (num,) + arr.shape and ex.space_dim == 3 and list(ex.dimensions) == [height] + list(dims)
                if good:
                    i_in, mag = integral(arr, dims, 2)
                    i_out, _ = integral(ex.img, list(ex.dimensions), 3)
                    good = bool(np.all(np.abs(i_out - height * i_in) <= 1e-12 * height * np.maximum(mag, 1e-300))) and all(np.array_equal(ex.img[k], arr) for k in range(num))
                R.check(np.array_equal(img.img, arr) and snap_of(img.metadata()) == meta_of[id(img)], "input_untouched", case)
                R.check(good, "extrusion", lambda: {**case, "out_shape": list(ex.img.shape), "out_dims": list(ex.dimensions)})
                R.sig(["extrude", list(shape), num, payload], True, cls="extrude")

        # ========================================================= superposition
        for rep in range(3):
            series = bool(rng.random() < 0.3)
            cnt = int(rng.integers(1, 5))
            h = float(2.0 ** rng.integers(-2, 2))
            same_grid = bool(rng.random() < 0.35)
            # physical magnitude of the data: ordinary, traces (1e-9) or large counts (exact powers of two times ...)
            mag_s = [1.0, 1.0, float(2.0 ** -30), float(2.0 ** 20)][int(rng.integers(0, 4))]
            imgs, places = [], []
            base_shape = (int(rng.integers(1, 9)), int(rng.integers(1, 9)))
            nt = 3
            for k in range(cnt):
                shp = base_shape if same_grid else (int(rng.integers(1, 9)), int(rng.integers(1, 9)))
                r0, c0 = (0, 0) if same_grid else (int(rng.integers(-6, 7)), int(rng.integers(-6, 7)))
                a = rng.integers(-9, 10, size=shp + ((nt,) if series else ())).astype(np.float64) * mag_s
                kw = dict(space_dim=2, dimensions=[shp[0] * h, shp[1] * h], scalar=True, series=series, origin=[c0 * h, -r0 * h])
                if series:
                    kw["time"] = [0.0, 1.0, 2.0]
                imgs.append(darsia.Image(a.copy(), **kw))
                places.append((r0, c0, shp, a))
            case = {"op": "superpose", "count": cnt, "data_magnitude": mag_s, "voxel_size": h, "series": series, "same_grid": same_grid,
                    "placements": [[r, c, list(s)] for r, c, s, _ in places]}
            snap = [im.img.copy() for im in imgs]
            ok, sup = R.guarded("superpose", lambda: darsia.superpose(imgs))
            if ok:
                rmin = min(r for r, c, s, a in places)
                cmin = min(c for r, c, s, a in places)
                rmax = max(r + s[0] for r, c, s, a in places)
                cmax = max(c + s[1] for r, c, s, a in places)
                canvas = np.zeros((rmax - rmin, cmax - cmin) + ((nt,) if series else ()))
                for r, c, s, a in places:
                    canvas[r - rmin : r - rmin + s[0], c - cmin : c - cmin + s[1]] += a
                good = sup.img.shape == canvas.shape
                det = {"out_shape": list(sup.img.shape), "expected_shape": list(canvas.shape)}
                if good:
                    err = float(np.max(np.abs(sup.img - canvas)))
                    det["max_err"] = err
                    good = err <= 1e-6 * max(float(np.max(np.abs(canvas))), mag_s)
                    good &= np.allclose(sup.dimensions, [(rmax - rmin) * h, (cmax - cmin) * h], rtol=1e-14) and np.allclose(np.asarray(sup.origin, float), [cmin * h, -rmin * h], rtol=1e-14, atol=1e-14)
                    i_sum = sum(integral(a, [s[0] * h, s[1] * h], 2)[0] for r, c, s, a in places)
                    i_can, mag = integral(sup.img, list(sup.dimensions), 2)
                    good &= bool(np.all(np.abs(i_can - i_sum) <= 1e-6 * np.maximum(mag, 1e-300) + 1e-9 * mag_s))
                R.check(good, "superpose", lambda: {**case, **det}, group=f"{cnt}/{same_grid}/{series}")
                R.check(all(np.array_equal(im.img, s) for im, s in zip(imgs, snap)), "input_untouched", case)
                R.sig(["superpose", cnt, same_grid, series, case["placements"]], cnt > 1, cls=f"superpose/{'same' if same_grid else 'offset'}/{'series' if series else 'single'}")
        if n < 1:
            R.sample({"example_ops": ["resize", "uniform_refinement", "reduce_axis", "extrude_along_axis", "superpose"], "last_case": case})


MANIFEST = {
    "technique": "boundary monitors on Resize/resize, uniform_refinement, AxisReduction/reduce_axis, extrude_along_axis, superpose judged by an independent fsum integral oracle and array identities",
    "level_text": "Thousands of generated images of all shapes (odd extents included), payloads and float types are pushed through the real resampling and reduction functions; each returned image is judged against its input by an independent integral (fsum of data x voxel volume per time step and component), the retained physical extent, and the stated identities (refine-then-coarsen bitwise identity, plain sums/means, loop-built superposition canvas).",
    "level_note": "Inputs are sampled. Resizing goes through OpenCV float32 area weights (1e-5 tolerance). On odd extents coarsening is only required to keep constants constant.",
    "design_ref": "DESIGN.md section 3, C11",
}
