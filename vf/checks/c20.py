"""C20 - matrix and Cartesian axis conventions are coherent in every dimension.

Monitors: icontract postconditions on the real helper functions
(to_matrix_indexing, to_cartesian_indexing, interpret_indexing,
matrixToCartesianIndexing, cartesianToMatrixIndexing) judged against the literal
convention table; boundary clauses on Image.slice / reduce_axis addressed by
Cartesian name versus matrix index.
"""

from __future__ import annotations

import itertools

import numpy as np

from vf.oracles import coords as CO

LEVEL = "exploration"
EXHAUSTIVE = {"quick": True, "thorough": True}
RULE = (
    "finite tables enumerated completely: dims 1..3 x every axis (by name and by number) x both directions x "
    "the three helper functions; Image.slice / reduce_axis for every axis and every cut index of random 2-D/3-D "
    "(and 1-D where supported) images, scalar and vector payload; layout helpers on N random arrays per dimension "
    "(quick 40, thorough 200) incl. trailing payload axes. distinct = (function, dim, axis/form, shape); "
    "non-trivial = a comparison against the table or against the index-addressed result was evaluated"
)
TOLERANCES = {"all": "exact / bitwise", "origins and dimensions of slices": "8 eps relative"}
ASSUMPTIONS = [
    "axis table of vf/oracles/coords.py (the coordinate system's convention, pinned by the baseline tests)",
    "a reduced image sits where AxisReduction documents it: its lower corner is the lower corner of the input without the component of the removed Cartesian axis "
    "(only then do cuts given by Cartesian coordinate select, on the reduced image, the data that matrix indices select)",
]
FLOORS = {
    "quick": {"negative_axis_tried": 60, "slice_object_reused": 100, "integer_typed_origin": 2, "slice_by_name_after_move": 20, "slice_at_faces_and_off_centre": 200, "reduced_image_keeps_lower_corner": 60, "table_row": 48, "there_and_back": 12, "name_equals_index": 150, "layout_places_voxels": 80, "layout_inverse": 80},
    "thorough": {"negative_axis_tried": 300, "slice_object_reused": 500, "integer_typed_origin": 10, "slice_by_name_after_move": 100, "slice_at_faces_and_off_centre": 1000, "reduced_image_keeps_lower_corner": 300, "table_row": 48, "there_and_back": 12, "name_equals_index": 700, "layout_places_voxels": 400, "layout_inverse": 400},
}


def shards(tier, seed):
    return [{"shard": 0, "n_arrays": 40 if tier == "quick" else 200, "n_images": 12 if tier == "quick" else 60}]


def expected_layout(arr, dim):
    """cartesian[x, y(, z)] = matrix voxel whose centre has Cartesian index (x, y, z), by loops."""
    shape = arr.shape[:dim]
    cshape = [0] * dim
    for c, (m, s) in enumerate(CO.TABLE[dim]):
        cshape[c] = shape[m]
    out = np.empty(tuple(cshape) + arr.shape[dim:], dtype=arr.dtype)
    for v in itertools.product(*[range(n) for n in shape]):
        cidx = [0] * dim
        for c, (m, s) in enumerate(CO.TABLE[dim]):
            cidx[c] = v[m] if s > 0 else shape[m] - 1 - v[m]
        out[tuple(cidx)] = arr[v]
    return out


def run_shard(spec, R):
    import darsia

    from vf.attach import attach_post
    from vf.checks import c01
    from vf.gen.images import make_image, rng_for

    rng = rng_for(spec["seed"], "C20", 0)
    c01.attach(R)

    # ------------------------------------------------------------ table rows
    for dim in (1, 2, 3):
        cart, mat = CO.NAMES_C[:dim], CO.NAMES_M[:dim]
        if not R.want(["tables", dim]):
            continue
        for c, (m, s) in enumerate(CO.TABLE[dim]):
            # Cartesian axis -> matrix axis
            R.guarded("interpret_indexing", lambda: R.check(
                tuple(darsia.interpret_indexing(cart[c], mat)) == (m, s < 0), "table_row",
                lambda: {"fn": "interpret_indexing", "axis": cart[c], "indexing": mat, "got": list(darsia.interpret_indexing(cart[c], mat)), "expected": [m, s < 0]}))
            R.guarded("interpret_indexing", lambda: R.check(
                tuple(darsia.interpret_indexing(mat[m], cart)) == (c, s < 0), "table_row",
                lambda: {"fn": "interpret_indexing", "axis": mat[m], "indexing": cart, "got": list(darsia.interpret_indexing(mat[m], cart)), "expected": [c, s < 0]}))
            # same-system rows are the identity
            R.guarded("interpret_indexing", lambda: R.check(tuple(darsia.interpret_indexing(cart[c], cart)) == (c, False), "table_row", {"fn": "interpret_indexing", "axis": cart[c], "indexing": cart}))
            R.guarded("interpret_indexing", lambda: R.check(tuple(darsia.interpret_indexing(mat[m], mat)) == (m, False), "table_row", {"fn": "interpret_indexing", "axis": mat[m], "indexing": mat}))
            for form, a in (("name", cart[c]), ("number", c)):
                R.guarded(
                    "to_matrix_indexing",
                    lambda: R.check(darsia.to_matrix_indexing(a, cart) == mat[m], "table_row",
                                    lambda: {"fn": "to_matrix_indexing", "axis": a, "indexing": cart, "got": darsia.to_matrix_indexing(a, cart), "expected": mat[m]},
                                    key=_key_tm(dim)),
                    key=lambda e, w: _key_tm(dim),
                )
                R.sig(["to_matrix_indexing", dim, form, c])
            for form, a in (("name", mat[m]), ("number", m)):
                R.guarded(
                    "to_cartesian_indexing",
                    lambda: R.check(darsia.to_cartesian_indexing(a, mat) == cart[c], "table_row",
                                    lambda: {"fn": "to_cartesian_indexing", "axis": a, "indexing": mat, "got": darsia.to_cartesian_indexing(a, mat), "expected": cart[c]},
                                    key=_key_tc(dim)),
                    key=lambda e, w: _key_tc(dim),
                )
                R.sig(["to_cartesian_indexing", dim, form, m])
            # there and back
            R.guarded("there_and_back", lambda: R.check(
                darsia.to_cartesian_indexing(darsia.to_matrix_indexing(cart[c], cart), mat) == cart[c], "there_and_back", {"dim": dim, "axis": cart[c]}),
                key=lambda e, w: _key_tm(dim))
            R.guarded("there_and_back", lambda: R.check(
                darsia.to_matrix_indexing(darsia.to_cartesian_indexing(mat[m], mat), cart) == mat[m], "there_and_back", {"dim": dim, "axis": mat[m]}),
                key=lambda e, w: _key_tm(dim))
            # the helpers agree pairwise (independent of the oracle table)
            def pairwise():
                a = darsia.interpret_indexing(cart[c], mat)[0]
                b = mat.index(darsia.to_matrix_indexing(cart[c], cart))
                cc = cart.index(darsia.to_cartesian_indexing(mat[a], mat))
                return R.check(a == b and cc == c, "helpers_agree_pairwise", {"dim": dim, "axis": cart[c], "interpret": a, "to_matrix": b, "back": cc})
            R.guarded("helpers_agree_pairwise", pairwise, key=lambda e, w: _key_tm(dim))
            R.sig(["tables", dim, c])
        R.sample({"dim": dim, "table": [[cart[c], mat[m], "reversed" if s < 0 else "same"] for c, (m, s) in enumerate(CO.TABLE[dim])]})

    # ---------------------------------------- slicing / reduction by name vs index
    eps = np.finfo(float).eps
    for k in range(spec["n_images"]):
        dim = [2, 3, 1][k % 3]
        payload = ["scalar", "vector"][(k // 3) % 2]
        if not R.want(["image", k]):
            make_image(rng, dim, shape=tuple(int(rng.integers(2, 6)) for _ in range(dim)), payload=payload)
            continue
        img, desc = make_image(rng, dim, shape=tuple(int(rng.integers(2, 6)) for _ in range(dim)), payload=payload,
                               origin_kind=["default", "user"][k % 2], dimensions=[float(rng.uniform(0.5, 3)) for _ in range(dim)])
        if k % 4 == 3:
            # the origin written as plain integers (metres), the dimensions are no integers
            img.origin = darsia.Coordinate(np.array([int(v) for v in np.round(np.asarray(img.origin, float))]))
            R.count("integer_typed_origin")
        cs = img.coordinatesystem
        shape = tuple(desc["shape"])
        arr_at_start = img.img.copy()
        for m in range(dim):
            c, s = CO.MATRIX[dim][m]
            name = CO.NAMES_C[c]
            # reduction
            for mode in ("sum", "average"):
                ok_i, by_i = R.guarded("reduce_by_index", lambda: darsia.reduce_axis(img, m, mode), unsupported=(Exception,) if dim == 1 else ())
                if not ok_i:
                    continue
                ok_n, by_n = R.guarded("reduce_by_name", lambda: darsia.reduce_axis(img, name, mode))
                if ok_n:
                    same = (np.array_equal(by_i.img, by_n.img) and np.allclose(by_i.dimensions, by_n.dimensions, rtol=8 * eps, atol=0)
                            and np.allclose(np.asarray(by_i.origin, float), np.asarray(by_n.origin, float), rtol=8 * eps, atol=0))
                    R.check(same, "name_equals_index", {"fn": "reduce_axis", "dim": dim, "axis": name, "index": m, "mode": mode, "shape": list(shape)})
                    R.sig(["reduce_axis", dim, m, mode, payload])
                    # where the reduced image sits (documented convention of the reduction: the lower corner of the image
                    # without the component of the removed Cartesian axis, turned into an origin as Image does by default)
                    if dim < 2:
                        continue
                    low = [float(cs.domain[a + "min"]) for a in CO.NAMES_C[:dim]]
                    kept_low = [v for ci_, v in enumerate(low) if ci_ != c]
                    nd = [float(x) for x in by_i.dimensions]
                    exp_origin = [kept_low[0]] if dim == 2 else [kept_low[0], kept_low[1] + nd[0]]
                    sc_o = max(1.0, float(np.max(np.abs(low))) + float(np.max(np.abs(img.dimensions))))
                    for how_, red_ in (("index", by_i), ("name", by_n)):
                        R.check(bool(np.all(np.abs(np.asarray(red_.origin, float) - np.asarray(exp_origin)) <= 16 * eps * sc_o)), "reduced_image_keeps_lower_corner",
                                {"fn": "reduce_axis", "dim": dim, "axis": name, "by": how_, "origin": np.asarray(red_.origin, float).tolist(), "expected": exp_origin, "lower_corner": low})
            # slice mode of the reduction and Image.slice
            for t in range(shape[m]):
                want = np.take(img.img, t, axis=m)
                ok_i, by_i = R.guarded("reduce_slice_by_index", lambda: darsia.reduce_axis(img, m, "slice", slice_idx=t), unsupported=(Exception,) if dim == 1 else ())
                if ok_i:
                    R.check(np.array_equal(by_i.img, want), "slice_is_take_along_axis",
                            {"fn": "reduce_axis(mode=slice)", "dim": dim, "index": m, "t": t, "shape": list(shape), "got_shape": list(by_i.img.shape)},
                            key="C20:reduce_axis_slice_mode_moves_wrong_axis" if (dim == 3 and m == 2) else None)
                    ok_n, by_n = R.guarded("reduce_slice_by_name", lambda: darsia.reduce_axis(img, name, "slice", slice_idx=t))
                    if ok_n:
                        R.check(np.array_equal(by_i.img, by_n.img), "name_equals_index", {"fn": "reduce_axis(mode=slice)", "dim": dim, "axis": name, "index": m, "t": t})
                ok_i, by_i = R.guarded("slice_by_index", lambda: img.slice(t, m), unsupported=(Exception,) if dim == 1 else ())
                if not ok_i:
                    continue
                R.check(np.array_equal(by_i.img, want), "slice_is_take_along_axis", {"fn": "Image.slice", "dim": dim, "index": m, "t": t, "shape": list(shape)})
                # a matrix axis counted from the end (numpy's negative indices) is either refused or means that axis
                ok_neg, by_neg = R.guarded("slice_by_negative_index", lambda: img.slice(t, m - dim), unsupported=(Exception,))
                if ok_neg:
                    R.check(np.array_equal(by_neg.img, want), "slice_is_take_along_axis", {"fn": "Image.slice", "dim": dim, "index": m - dim, "t": t, "shape": list(shape), "what": "negative matrix axis accepted"})
                R.count("negative_axis_tried")
                if not ok_neg:
                    # a refused request leaves the image as it was (its data are what later slices are compared with)
                    intact = img.img.shape == arr_at_start.shape and np.array_equal(img.img, arr_at_start)
                    R.check(intact, "image_untouched_by_refused_request", {"fn": "Image.slice", "dim": dim, "index": m - dim, "t": t, "shape": list(shape), "shape_after": list(img.img.shape)})
                    if not intact:
                        img.img = arr_at_start.copy()
                # one reduction object in slice mode serves several images (here: the same image twice, by name and index)
                if dim > 1:
                    for ax_arg in (m, name):
                        ok_o, duo = R.guarded("reduce_slice_object_reused", lambda: (lambda ar_: (ar_(img), ar_(img)))(darsia.AxisReduction(axis=ax_arg, dim=dim, mode="slice", slice_idx=t)))
                        if ok_o:
                            R.check(np.array_equal(duo[0].img, want) and np.array_equal(duo[1].img, want), "slice_is_take_along_axis",
                                    {"fn": "AxisReduction(mode=slice) applied twice", "dim": dim, "axis": ax_arg, "t": t, "shape": list(shape)},
                                    key="C20:reduce_axis_slice_mode_moves_wrong_axis" if (dim == 3 and m == 2) else None, group="object_reused")
                            R.count("slice_object_reused")
                # the same slice addressed through the Cartesian name: coordinate of the voxel centre
                centre = np.array([0.5] * dim)
                centre[m] = t + 0.5
                coord = float(np.asarray(cs.coordinate(centre), float)[c])
                ok_n, by_n = R.guarded("slice_by_name", lambda: img.slice(coord, name), key=lambda e, w: "C20:image_slice_by_name_fails")
                if ok_n:
                    same = (np.array_equal(by_i.img, by_n.img) and np.allclose(by_i.dimensions, by_n.dimensions, rtol=8 * eps, atol=0)
                            and np.allclose(np.asarray(by_i.origin, float), np.asarray(by_n.origin, float), rtol=8 * eps, atol=0))
                    R.check(same, "name_equals_index", {"fn": "Image.slice", "dim": dim, "axis": name, "index": m, "t": t, "coord": coord, "shape": list(shape)})
                    R.sig(["Image.slice", dim, m, payload, list(shape)])
                # cuts that are not voxel centres: exactly on the faces of voxel t, and off-centre; the slice selected
                # through the name is the one of the voxel the coordinate system assigns to that coordinate
                for off in (0.0, 1.0, 0.25, 0.9):
                    pos = np.array([0.5] * dim)
                    pos[m] = t + off
                    cface = float(np.asarray(cs.coordinate(pos), float)[c])
                    full = np.zeros(dim)
                    full[c] = cface
                    idx = int(np.asarray(cs.voxel(full))[m])
                    if not 0 <= idx < shape[m]:
                        continue  # the cut lies on the outer face or outside: no voxel of the image
                    ok_f, by_f = R.guarded("slice_by_name", lambda: img.slice(cface, name), key=lambda e, w: "C20:image_slice_by_name_fails")
                    if ok_f:
                        R.check(np.array_equal(by_f.img, np.take(img.img, idx, axis=m)), "name_equals_index",
                                {"fn": "Image.slice", "dim": dim, "axis": name, "index": m, "cut": cface, "voxel_of_cut": idx, "offset_in_voxel": off, "shape": list(shape)})
                        R.count("slice_at_faces_and_off_centre")
        # history on the image object: its coordinate system was used above; now the image is moved in place and cut
        # again through Cartesian names (the cut coordinates come from the independent axis table)
        if dim >= 2 and k % 2 == 0:
            dims_ = [float(x) for x in img.dimensions]
            new_o = [float(x) for x in (np.asarray(img.origin, float) + rng.uniform(1.0, 3.0, size=dim) * np.array(dims_[::-1]))]
            img.update_metadata(origin=darsia.Coordinate(np.array(new_o)))
            for m in range(dim):
                c, s = CO.MATRIX[dim][m]
                name = CO.NAMES_C[c]
                for t in range(shape[m]):
                    centre = np.array([0.5] * dim)
                    centre[m] = t + 0.5
                    coord = float(np.asarray(CO.coordinate(dim, shape, dims_, new_o, centre), float)[c])
                    ok_n, by_n = R.guarded("slice_by_name", lambda: img.slice(coord, name), key=lambda e, w: "C20:image_slice_by_name_fails")
                    if ok_n:
                        R.check(np.array_equal(by_n.img, np.take(img.img, t, axis=m)), "name_equals_index",
                                {"fn": "Image.slice", "dim": dim, "axis": name, "index": m, "t": t, "coord": coord, "shape": list(shape), "history": "coordinate system used, origin moved in place, cut by name"})
                        R.count("slice_by_name_after_move")
        if k < 2:
            R.sample({"image": desc, "checked": "slice/reduce by name vs index for every axis and cut"})

    # ----------------------------------------------------------- layout helpers
    def post_m2c(img, dim, result):
        exp = expected_layout(np.asarray(img), dim)
        R.check(np.array_equal(np.asarray(result), exp), "layout_places_voxels", {"fn": "matrixToCartesianIndexing", "dim": dim, "shape": list(np.shape(img))})
        return True

    attach_post(darsia.image.indexing, "matrixToCartesianIndexing", post_m2c, R)
    darsia.matrixToCartesianIndexing = darsia.image.indexing.matrixToCartesianIndexing
    import inspect

    has_dim = "dim" in inspect.signature(darsia.cartesianToMatrixIndexing).parameters
    for k in range(spec["n_arrays"]):
        dim = 1 + k % 3
        trailing = [(), (3,), (2, 3)][(k // 3) % 3]
        shape = tuple(int(rng.integers(1, 6)) for _ in range(dim))
        arr = rng.integers(0, 10**6, size=shape + trailing)
        if not R.want(["array", k]):
            continue
        ok, cart = R.guarded("matrixToCartesianIndexing", lambda: darsia.matrixToCartesianIndexing(arr, dim))
        if not ok:
            continue
        # cross-check with the real coordinate system: voxel centre -> Cartesian index
        im = darsia.Image(arr.astype(float), space_dim=dim, dimensions=[float(n) for n in shape], scalar=(trailing == ()), series=False)
        cs = im.coordinatesystem
        good = True
        lo = [float(cs.domain[a + "min"]) for a in CO.NAMES_C[:dim]]
        for v in itertools.product(*[range(n) for n in shape]):
            cen = np.asarray(cs.coordinate(np.array(v) + 0.5), float)
            cidx = tuple(int(np.floor(cen[c] - lo[c])) for c in range(dim))  # unit voxels
            try:
                if not np.array_equal(cart[cidx], arr[v]):
                    good = False
            except IndexError:  # the Cartesian array does not even have the extent the coordinate system implies
                good = False
        R.check(good, "layout_agrees_with_coordinate_system", {"dim": dim, "shape": list(shape)})
        R.sig(["layout", dim, list(shape), list(trailing)])

        def back():
            return darsia.cartesianToMatrixIndexing(cart, dim) if has_dim else darsia.cartesianToMatrixIndexing(cart)

        key = "C20:cartesianToMatrixIndexing_2d_only" if (dim != 2 and not has_dim) else None
        ok, rt = R.guarded("cartesianToMatrixIndexing", back, key=lambda e, w: key)
        if ok:
            R.check(np.array_equal(np.asarray(rt), arr), "layout_inverse", {"dim": dim, "shape": list(shape), "direction": "m2c then c2m"}, key=key)
            # and the other composition
            ok2, rt2 = R.guarded("matrixToCartesianIndexing", lambda: darsia.matrixToCartesianIndexing(rt, dim))
            if ok2:
                R.check(np.array_equal(np.asarray(rt2), np.asarray(cart)), "layout_inverse", {"dim": dim, "shape": list(shape), "direction": "c2m then m2c"}, key=key)
        if k < 1:
            R.sample({"array_shape": list(arr.shape), "dim": dim, "cartesian_shape": list(np.shape(cart))})


def _key_tm(dim):
    return {1: "C20:to_matrix_indexing_no_1d_rows", 3: "C20:to_matrix_indexing_3d_assert_and_rows"}.get(dim)


def _key_tc(dim):
    return {1: "C20:to_cartesian_indexing_no_1d_rows", 3: "C20:to_cartesian_indexing_3d_rows"}.get(dim)


MANIFEST = {
    "technique": "icontract postconditions / boundary monitors on the real axis helpers, Image.slice and reduce_axis; exhaustive enumeration of the finite tables; loop-built layout oracle and cross-check against the real coordinate system",
    "level_text": "All rows of the three axis-translation helpers in dimensions 1-3 (by name and by number, both directions) are executed and compared with one literal table, with each other and there-and-back; every axis and every cut index of random images is addressed by Cartesian name and by matrix index through Image.slice and reduce_axis and the results compared bitwise (data) and to rounding (metadata); the layout helpers are run on random arrays, compared with a loop-built expected layout, with the positions the real coordinate system assigns, and composed both ways.",
    "level_note": "Finite tables are enumerated completely; arrays and images are sampled. Trusts the literal table in vf/oracles/coords.py.",
    "design_ref": "DESIGN.md section 3, C20",
}
