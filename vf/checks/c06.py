"""C06 - finite-volume operators obey the discrete divergence theorem.

Monitors: wrappers at the boundary of the real operators (FVDivergence, FVMass,
face_to_cell, cell_to_face_average, FVTangentialFaceReconstruction,
FVFullFaceReconstruction); each constructed operator / returned array is judged
against the explicit loop model (vf.oracles.gridmodel) and against the
identities the property names.  The Grid contract of C07 is attached as well.
"""

from __future__ import annotations

import numpy as np

from vf.oracles.gridmodel import GridModel, all_shapes

LEVEL = "exploration"
EXHAUSTIVE = {"quick": True, "thorough": True}
RULE = (
    "all 186 shapes x D draws (quick 3, thorough 30) of anisotropic voxel sizes 10^U(-2,2), random face fluxes, "
    "cell fields (scalar / vector / tensor, positive for harmonic means) and evaluation points in [0,1]^d incl. "
    "corners and centre; case = (shape, draw, operator, quantity kind); non-trivial = grid has >= 1 face; "
    "distinct by (shape, operator, kind). The shape space is enumerated completely; the continuous data are sampled."
)
TOLERANCES = {
    "operator entries": "1e-13 relative to the largest entry",
    "identities": "64 * eps * sum of absolute terms",
    "face_to_cell / averages": "1e-13 relative to max |input|",
}
ASSUMPTIONS = ["loop model of vf.oracles.gridmodel (numbering convention of C07)"]
FLOORS = {
    "quick": {"cell_to_face_tiny_fields": 500, "small_physical_units": 100, "cell_to_face_buffer_refilled": 500, "tangential_default_form_is_blockwise": 300, "cell_to_face_integer_fields": 500, "reconstruction_object_reused": 500, "scalar_voxel_size": 100, "grid_rejudged_after_operators": 300, "divergence_matrix": 500, "face_to_cell_model": 1500, "cell_to_face_model": 3000, "tangential_constant": 300},
    "thorough": {"cell_to_face_tiny_fields": 5000, "small_physical_units": 1000, "cell_to_face_buffer_refilled": 5000, "tangential_default_form_is_blockwise": 3000, "cell_to_face_integer_fields": 5000, "reconstruction_object_reused": 5000, "scalar_voxel_size": 1000, "grid_rejudged_after_operators": 3000, "divergence_matrix": 5000, "face_to_cell_model": 15000, "cell_to_face_model": 30000, "tangential_constant": 3000},
}


def shards(tier, seed):
    k = 8 if tier == "quick" else 16
    return [{"shard": i, "nshards": k, "draws": 3 if tier == "quick" else 30} for i in range(k)]


def close(a, b, scale, c=1e-13):
    a = np.asarray(a, float)
    b = np.asarray(b, float)
    if a.shape != b.shape:
        return False
    if a.size == 0:
        return True
    return bool(np.max(np.abs(a - b)) <= c * max(scale, 1e-300))


def run_shard(spec, R):
    import darsia

    from vf.checks import c07
    from vf.gen.images import rng_for

    c07_source = ["c06-workload"]
    c07.attach(R, c07_source)
    rng = rng_for(spec["seed"], "C06", spec["shard"])
    eps = np.finfo(float).eps
    shapes = all_shapes()
    for si, shape in enumerate(shapes):
        if si % spec["nshards"] != spec["shard"]:
            continue
        dim = len(shape)
        for draw in range(spec["draws"]):
            if not R.want([list(shape), draw]):
                continue
            h = [float(10 ** rng.uniform(-2, 2)) for _ in shape]
            if (si + draw) % 4 == 1:
                # lengths in small units (nanometres ... micrometres), with a mild or a strong anisotropy
                unit = float(10 ** rng.uniform(-9, -6))
                h = [unit * float(rng.uniform(1.0, 1.01) if (si % 2) else rng.uniform(1.0, 3.0)) for _ in shape]
                R.count("small_physical_units")
            scalar_h = (si + draw) % 3 == 2
            if scalar_h:
                h = [h[0]] * dim  # one number for all axes, given as a plain float
            # the caller's container (list or float ndarray) is reused and overwritten by the caller afterwards:
            # a grid is defined by the values it was constructed with
            given = h[0] if scalar_h else (list(h) if (si + draw) % 2 == 0 else np.array(h, dtype=float))
            grid = darsia.Grid(shape, given)
            for d in range(dim if not scalar_h else 0):
                given[d] = given[d] * 0.5
            if scalar_h:
                R.count("scalar_voxel_size")
            R.count("caller_container_overwritten_after_construction")
            M = GridModel(shape, h)
            case = {"shape": list(shape), "draw": draw, "voxel_size": h}
            nf, nc = M.num_faces, M.num_cells
            nontriv = nf > 0
            u = rng.standard_normal(nf)
            p = rng.standard_normal(nc)

            # ---------------- divergence
            ok, div = R.guarded("divergence_constructible", lambda: darsia.FVDivergence(grid).mat)
            if ok:
                Dl = np.asarray(div.todense()) if nf > 0 else np.zeros((nc, 0))
                Dm = M.divergence_matrix()
                scale = max(M.area) if M.area else 1.0
                R.check(close(Dl, Dm, scale), "divergence_matrix", lambda: {**case, "maxdiff": float(np.max(np.abs(Dl - Dm))) if Dl.shape == Dm.shape else "shape"})
                R.sig([list(shape), "div"], nontriv, cls=f"{dim}d")
                if nf > 0:
                    du = div.dot(u)
                    terms = float(np.sum(np.abs(Dm) @ np.abs(u)))
                    R.check(abs(float(np.sum(du))) <= 64 * eps * max(terms, 1e-300), "total_divergence_zero", lambda: {**case, "sum": float(np.sum(du))})
                    R.check(close(du, M.divergence(u), np.max(np.abs(Dm)) * np.max(np.abs(u)) * 2 * dim), "net_outflow_per_cell", case)
                    lhs = float(np.dot(du, p))
                    rhs = -float(np.dot(u, M.face_difference(p)))
                    tscale = float(np.sum(np.abs(Dm).T @ np.abs(p) * np.abs(u)))
                    R.check(abs(lhs - rhs) <= 64 * eps * max(tscale, 1e-300), "divergence_negative_adjoint_of_face_difference", lambda: {**case, "lhs": lhs, "rhs": rhs})
                    # sign convention: + for the lower-index neighbour
                    f0 = 0
                    lo, hi = M.connectivity[f0]
                    R.check(Dl[lo, f0] > 0 and Dl[hi, f0] < 0, "oriented_lower_to_higher", case)

            # ---------------- mass matrices
            for mode, n in (("cells", nc), ("faces", nf)):
                ok, mm = R.guarded("mass_constructible", lambda: darsia.FVMass(grid, mode).mat)
                if ok:
                    dense = np.asarray(mm.todense()) if n > 0 else np.zeros((0, 0))
                    R.check(close(dense, M.volume * np.eye(n), M.volume), "mass_is_volume_identity", lambda: {**case, "mode": mode})
                    R.sig([list(shape), "mass", mode], nontriv)

            # ---------------- face -> cell reconstruction
            pts = [None, np.full(dim, 0.5), rng.random(dim), np.zeros(dim), np.ones(dim), (rng.random(dim) > 0.5).astype(float)]
            if dim > 1:
                # points that are central on some axes only: a face midpoint (one component 0 or 1, the others 0.5)
                # and a point with one component 0.5 and the others arbitrary
                fm = np.full(dim, 0.5)
                fm[int(rng.integers(0, dim))] = float(rng.integers(0, 2))
                mx = rng.random(dim)
                mx[int(rng.integers(0, dim))] = 0.5
                pts += [fm, mx]
                R.count("face_to_cell_point_central_on_some_axes_only", 2)
            for pi, pt in enumerate(pts):
                arg = pt
                if dim == 1 and pt is not None and pi % 2 == 0:
                    arg = float(pt[0])  # 1-D: scalar form of the point
                ok, cf = R.guarded("face_to_cell", lambda: darsia.face_to_cell(grid, u, arg) if arg is not None else darsia.face_to_cell(grid, u))
                if not ok:
                    continue
                ptm = np.full(dim, 0.5) if pt is None else pt
                exp = M.face_to_cell(u, ptm)
                sc = float(np.max(np.abs(u))) if nf else 1.0
                R.check(close(cf, exp, sc), "face_to_cell_model", lambda: {**case, "pt": None if pt is None else pt.tolist(), "maxdiff": float(np.max(np.abs(np.asarray(cf) - exp))) if np.shape(cf) == exp.shape else f"shape {np.shape(cf)}"})
                R.sig([list(shape), "f2c", pi], nontriv)
            # explicit clauses of the statement on one more evaluation: face value at the face, mean at centre
            if nf > 0:
                cf0 = darsia.face_to_cell(grid, u, np.zeros(dim) if dim > 1 else 0.0)
                cf1 = darsia.face_to_cell(grid, u, np.ones(dim) if dim > 1 else 1.0)
                cfh = darsia.face_to_cell(grid, u)
                good = True
                for c, m in enumerate(M.cells):
                    for d in range(dim):
                        flo, fhi = M.reverse[d, c, 0], M.reverse[d, c, 1]
                        vlo = u[flo] if flo >= 0 else 0.0
                        vhi = u[fhi] if fhi >= 0 else 0.0
                        if cf0[m + (d,)] != vlo or cf1[m + (d,)] != vhi:
                            good = False
                        if abs(cfh[m + (d,)] - 0.5 * (vlo + vhi)) > 4 * eps * (abs(vlo) + abs(vhi)):
                            good = False
                R.check(good, "face_value_at_face_mean_at_centre_zero_on_boundary", case)

            # ---------------- cell -> face averages
            kinds = {}
            sc_field = rng.random(shape) + 0.1
            kinds["scalar"] = (sc_field, [M.flat(sc_field)] * dim)
            kinds["scalar_trailing1"] = (sc_field[..., None], [M.flat(sc_field)] * dim)
            if dim > 1:
                vec = rng.random(shape + (dim,)) + 0.1
                kinds["vector"] = (vec, [M.flat(vec[..., d]) for d in range(dim)])
            ten = rng.random(shape + (dim, dim)) + 0.1
            kinds["tensor"] = (ten, [M.flat(ten[..., d, d]) for d in range(dim)])
            for kname, (qty, comps) in kinds.items():
                for mode in ("arithmetic", "harmonic"):
                    ok, fq = R.guarded("cell_to_face_average", lambda: darsia.cell_to_face_average(grid, qty, mode))
                    if not ok:
                        continue
                    exp = M.cell_to_face(comps, mode)
                    R.check(close(fq, exp, 1.2), "cell_to_face_model", lambda: {**case, "kind": kname, "mode": mode})
                    R.sig([list(shape), "c2f", kname, mode], nontriv)
            # signed data for the arithmetic mean
            sg = rng.standard_normal(shape)
            ok, fq = R.guarded("cell_to_face_average", lambda: darsia.cell_to_face_average(grid, sg, "arithmetic"))
            if ok:
                R.check(close(fq, M.cell_to_face([M.flat(sg)] * dim, "arithmetic"), float(np.max(np.abs(sg)))), "cell_to_face_model", {**case, "kind": "signed"})

            # a work buffer refilled in place between two calls on the same grid: each call averages what the buffer
            # holds when it is made
            buf = rng.random(shape) + 0.1
            for mode in ("arithmetic", "harmonic"):
                ok, _first = R.guarded("cell_to_face_average", lambda: darsia.cell_to_face_average(grid, buf, mode))
                buf *= 1.0 + rng.random(shape)
                buf[tuple(0 for _ in shape)] += 1.0
                ok2, fq2 = R.guarded("cell_to_face_average", lambda: darsia.cell_to_face_average(grid, buf, mode))
                if ok and ok2:
                    R.check(close(fq2, M.cell_to_face([M.flat(buf)] * dim, mode), 4.0), "cell_to_face_model", lambda: {**case, "kind": "buffer refilled in place between two calls", "mode": mode}, group="buffer_refilled")
                    R.count("cell_to_face_buffer_refilled")
            # cell fields of very small magnitude (permeabilities in square metres): the means are relative quantities
            tiny = (rng.random(shape) + 0.1) * 1e-12
            for mode in ("arithmetic", "harmonic"):
                ok, fqt = R.guarded("cell_to_face_average", lambda: darsia.cell_to_face_average(grid, tiny, mode))
                if ok:
                    R.check(close(fqt, M.cell_to_face([M.flat(tiny)] * dim, mode), 1.2e-12), "cell_to_face_model", lambda: {**case, "kind": "field of magnitude 1e-12", "mode": mode}, group="tiny_fields")
                    R.count("cell_to_face_tiny_fields")
            # integer-valued cell fields (label-based weights): the means are the means of the numbers
            it_field = rng.integers(1, 6, size=shape)
            ikinds = {"int_scalar": (it_field, [M.flat(it_field.astype(float))] * dim)}
            if dim > 1:
                ivec = rng.integers(1, 6, size=shape + (dim,))
                ikinds["int_vector"] = (ivec, [M.flat(ivec[..., d].astype(float)) for d in range(dim)])
            for kname, (qty, comps) in ikinds.items():
                for mode in ("arithmetic", "harmonic"):
                    q0 = qty.copy()
                    ok, fq = R.guarded("cell_to_face_average", lambda: darsia.cell_to_face_average(grid, qty, mode))
                    if ok:
                        R.check(close(fq, M.cell_to_face(comps, mode), 6.0) and np.array_equal(qty, q0), "cell_to_face_model", lambda: {**case, "kind": kname, "mode": mode}, group="integer_fields")
                        R.count("cell_to_face_integer_fields")

            # ---------------- tangential / full reconstruction of a constant field
            a = rng.standard_normal(dim)
            normal = np.zeros(nf)
            for d in range(dim):
                normal[np.asarray(M.faces[d], dtype=int)] = a[d]
            ok, full = R.guarded("full_reconstruction", lambda: darsia.FVFullFaceReconstruction(grid)(normal))
            if ok:
                good = np.shape(full) == (nf, dim)
                worst = 0.0
                if good:
                    for d in range(dim):
                        for f in M.faces[d]:
                            if full[f, d] != normal[f]:
                                good = False
                        for f in M.interior[d]:
                            worst = max(worst, float(np.max(np.abs(full[f] - a))))
                    good &= worst <= 8 * eps * float(np.max(np.abs(a)))
                R.check(good, "tangential_constant", lambda: {**case, "a": a.tolist(), "worst": worst})
                R.sig([list(shape), "tangential"], nontriv and any(len(x) for x in M.interior))
            # one reconstruction object serves several fluxes (as in a solver loop): every application is judged
            a2s = [rng.standard_normal(dim) for _ in range(2)]
            ok, objs = R.guarded("full_reconstruction", lambda: (darsia.FVFullFaceReconstruction(grid), darsia.FVTangentialFaceReconstruction(grid)))
            if ok:
                for rep, a2 in enumerate([a] + a2s):
                    normal2 = np.zeros(nf)
                    for d in range(dim):
                        normal2[np.asarray(M.faces[d], dtype=int)] = a2[d]
                    ok, full2 = R.guarded("full_reconstruction", lambda: objs[0](normal2))
                    if ok:
                        good = np.shape(full2) == (nf, dim) and all(float(np.max(np.abs(full2[f] - a2))) <= 8 * eps * float(np.max(np.abs(a2))) for d in range(dim) for f in M.interior[d])
                        R.check(bool(good), "tangential_constant", lambda: {**case, "what": "full reconstruction object re-used", "application": rep + 1, "a": a2.tolist()}, group="object_reused")
                        R.count("reconstruction_object_reused")
                    if dim > 1:
                        ok, tang2 = R.guarded("tangential_reconstruction", lambda: objs[1](normal2, False))
                        if ok:
                            good = len(tang2) == dim - 1 and all(abs(tang2[i][f] - a2[dp]) <= 8 * eps * abs(a2[dp]) for d in range(dim)
                                                                 for i, dp in enumerate([e for e in range(dim) if e != d]) for f in M.interior[d])
                            R.check(bool(good), "tangential_constant", lambda: {**case, "what": "tangential reconstruction object re-used", "application": rep + 1}, group="object_reused")
            ok, tang = R.guarded("tangential_reconstruction", lambda: darsia.FVTangentialFaceReconstruction(grid)(normal, False))
            if ok and dim > 1:
                good = len(tang) == dim - 1
                if good:
                    for d in range(dim):
                        perp = [e for e in range(dim) if e != d]
                        for i, dp in enumerate(perp):
                            for f in M.interior[d]:
                                if abs(tang[i][f] - a[dp]) > 8 * eps * abs(a[dp]):
                                    good = False
                R.check(good, "tangential_constant", case)
            # the default call form of the tangential reconstruction returns the components one block after the other
            if dim > 1:
                ok, pair = R.guarded("tangential_reconstruction", lambda: (darsia.FVTangentialFaceReconstruction(grid)(normal), darsia.FVTangentialFaceReconstruction(grid)(normal, False)))
                if ok:
                    R.check(np.shape(pair[0]) == ((dim - 1) * nf,) and np.array_equal(np.asarray(pair[0]), np.concatenate([np.asarray(t) for t in pair[1]])), "tangential_default_form_is_blockwise",
                            lambda: {**case, "shape": list(np.shape(pair[0]))}, group=f"{dim}d")
            # quiescent point: every operator of this case has been built on (and applied with) the grid object; its
            # numbering and connectivity are judged again (operators must not write into the grid they were given)
            src_before = c07_source[0]
            c07_source[0] = "c06:after_operators"
            c07.judge_grid(R, grid, "c06:after_operators")
            c07_source[0] = src_before
            R.count("grid_rejudged_after_operators")
            if si < 2 and draw == 0:
                R.sample({"shape": list(shape), "voxel_size": h, "faces": nf, "flux_head": u[:4].tolist()})
    R.count("boundary_wrapped_calls", R.evaluations)


MANIFEST = {
    "technique": "boundary monitors on the real FV operators judged against an explicit loop model and the divergence-theorem identities; exhaustive over the 186 grid shapes, sampled data",
    "level_text": "For every grid shape of the quantifier (enumerated completely) and several random draws of voxel sizes, fluxes, fields and evaluation points, every operator the property names is executed and its result compared with an independent loop model (entrywise) and with the stated identities (zero total divergence, negative adjointness, volume-scaled mass, linear face interpolation incl. face/centre/boundary values, arithmetic/harmonic neighbour means for scalar/vector/tensor data, constant fields reproduced on interior faces).",
    "level_note": "Continuous inputs are sampled, not enumerated; trusts the loop model's reading of the numbering and orientation convention; float comparisons at 1e-13 relative.",
    "design_ref": "DESIGN.md section 3, C06",
}
