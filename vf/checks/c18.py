"""C18 - saved images and corrections reload to equivalent objects.

Monitors: boundary monitors pairing every ``Image.save`` with the ``imread`` of
the same file, every encoded byte string with ``imread_from_bytes``, every
``OpticalImage.write`` with ``imread``, and every ``correction.save`` with
``read_correction``; the reloaded object is judged against a snapshot taken
before saving (pixels bitwise, dtype, every metadata key, image kind) and, for
corrections, by bitwise equal output on fresh inputs.
"""

from __future__ import annotations

import os
import shutil
import tempfile
from pathlib import Path

import numpy as np

LEVEL = "exploration"
EXHAUSTIVE = {"quick": False, "thorough": False}
RULE = (
    "(npz) random images over the metadata space: space_dim 1..3, single / series, scalar / vector, class Image / ScalarImage / "
    "OpticalImage, dtype bool / uint8 / uint16 / float32 / float64, dates (spanning days, fractional seconds) / relative times / "
    "neither, names, default and user origins, dimensions over 4 decades; (bytes) PNG and TIFF byte strings of 8- and 16-bit grey, "
    "single-channel and colour arrays of random shape; (write) uint8 optical images to PNG and uint16 to TIFF, RGB and BGR colour "
    "space; (corrections) Type, Drift (active/inactive, with/without roi and padding), Curvature (bulge/stretch/crop configs, "
    "after use so that the cache is populated), Illumination (set up on a synthetic photo) and Colour corrections (synthetic "
    "colour checker; options whitebalancing / colorbalancing / clip / active) saved, reloaded through read_correction and applied "
    "to fresh inputs. distinct = (family, configuration, dtype, shape class); non-trivial = non-default metadata or configuration"
)
TOLERANCES = {"everything": "bitwise / exact equality (OpenCV's RNG re-seeded before each colour-correction evaluation)"}
ASSUMPTIONS = ["files are written to a per-run temporary directory that is removed afterwards", "lossless formats: PNG (8 bit) and TIFF (16 bit), as documented in OpticalImage.write"]
FLOORS = {
    "quick": {"optical_written_again_after_reading": 50, "files_16bit_read_as_list": 4, "files_read_in_given_order": 16, "write_with_compression_option": 15, "npz_roundtrip": 250, "bytes_roundtrip": 150, "optical_write_read": 60, "correction_roundtrip": 150, "estimator_regions_compared": 100, "correction_path_reused": 200, "caller_config_edited_after_construction": 40, "curvature_crop_points_typed": 6, "curvature_resize_factor": 20, "curvature_interpolation_order": 20, "optical_image_converted_before_saving": 2, "date_set_after_construction": 5, "explicit_times_beside_dates": 10},
    "thorough": {"optical_written_again_after_reading": 600, "files_16bit_read_as_list": 40, "files_read_in_given_order": 160, "write_with_compression_option": 200, "npz_roundtrip": 3000, "bytes_roundtrip": 1800, "optical_write_read": 700, "correction_roundtrip": 1700, "estimator_regions_compared": 1000, "correction_path_reused": 2000, "caller_config_edited_after_construction": 400, "curvature_crop_points_typed": 60, "curvature_resize_factor": 200, "curvature_interpolation_order": 200, "optical_image_converted_before_saving": 50, "date_set_after_construction": 100, "explicit_times_beside_dates": 100},
}
SHARD_TIMEOUT = {"quick": 1500, "thorough": 7200}


def shards(tier, seed):
    k = 16
    q = tier == "quick"
    return [{"shard": i, "n_img": (320 if q else 3600) // k, "n_bytes": (192 if q else 2000) // k, "n_write": (80 if q else 800) // k, "n_corr": 2 if q else 22} for i in range(k)]


def run_shard(spec, R):
    import contextlib
    import io

    import cv2
    import skimage

    import darsia

    from vf.checks.c10 import checker_photo
    from vf.gen.images import make_image, rng_for
    from vf.snapshots import snap

    tmp = Path(tempfile.mkdtemp(prefix="vf-c18-", dir=os.environ.get("VERIF_RUN_DIR", None)))
    quiet = lambda: contextlib.redirect_stdout(io.StringIO())

    # ================================================================== npz
    for n in range(spec["n_img"]):
        if not R.want(["npz", n]):
            continue
        rng = rng_for(spec["seed"], "C18", spec["shard"], n)
        dim = int(rng.choice([1, 2, 2, 3]))
        series = bool(rng.random() < 0.4)
        payload = str(rng.choice(["scalar", "vector"]))
        dtype = [np.bool_, np.uint8, np.uint16, np.float32, np.float64][int(rng.integers(0, 5))]
        time_kind = str(rng.choice(["date", "time", "none"]))
        cls = darsia.Image
        r = rng.random()
        if dim == 2 and payload == "vector" and r < 0.4:
            cls = darsia.OpticalImage
        elif payload == "scalar" and r < 0.4:
            cls = darsia.ScalarImage
        name = None if rng.random() < 0.5 else f"img-{n}"
        img, desc = make_image(rng, dim, payload=payload, series=series, dtype=dtype, origin_kind=str(rng.choice(["default", "user", "far"])), time_kind=time_kind,
                               nt=int(rng.integers(1, 4)), cls=cls, name=name, shape=tuple(int(rng.integers(1, 6)) for _ in range(dim)))
        if cls is darsia.OpticalImage and rng.random() < 0.5:
            img.color_space = str(rng.choice(["BGR", "HSV"]))
        case = {**desc, "class": cls.__name__, "name": name}
        if cls is darsia.OpticalImage and dim == 2 and np.dtype(dtype) in (np.dtype(np.uint8), np.dtype(np.float32)) and n % 2 == 0:
            # a colour space reached through the library's own conversion
            target = ["HLS", "LAB", "HSV", "BGR"][(n // 2) % 4]
            img.color_space = "RGB"
            try:
                img.to_trichromatic(target)
                case["converted_to"] = target
                R.count("optical_image_converted_before_saving")
            except Exception:
                pass
        if time_kind == "none" and not series and n % 4 == 1:
            # the date becomes known only after construction
            from datetime import datetime as _dt

            img.update_metadata(date=_dt(2024, 2, 29, 13, 14, 15, 160000 + n))
            case["date_set_after_construction"] = True
            R.count("date_set_after_construction")
        if time_kind == "date" and n % 3 == 0:
            # dates AND a clock of its own (e.g. started 90 s before the first image): the times are data, they are
            # not the dates minus the reference date
            cur = img.time
            own = [90.0 + 1.5 * float(t) for t in cur] if isinstance(cur, list) else 90.0 + 1.5 * float(cur if cur is not None else 0.0)
            ok_t, _ = R.guarded("set_time", lambda: img.set_time(own))
            if ok_t:
                case["explicit_times_beside_dates"] = True
                R.count("explicit_times_beside_dates")
        before = snap(img)
        meta0 = img.metadata()
        path = tmp / f"im{n % 3}.npz"  # file names are reused (overwritten) within a shard
        with quiet():
            ok, _ = R.guarded("save", lambda: img.save(path))
        if not ok:
            continue
        R.check(snap(img) == before, "save_leaves_image_untouched", case)
        with quiet():
            ok, back = R.guarded("imread_npz", lambda: darsia.imread(path))
        if not ok:
            continue
        good_px = back.img.dtype == img.img.dtype and back.img.shape == img.img.shape and np.array_equal(back.img, img.img)
        meta1 = back.metadata()
        bad = [k for k in meta0 if snap(meta1.get(k, "<missing>")) != snap(meta0[k]) and not (k == "origin" and np.array_equal(np.asarray(meta1.get(k)), np.asarray(meta0[k])))]
        key = "C18:npz_roundtrip_loses_optical_kind" if cls is darsia.OpticalImage else None
        R.check(good_px and not bad, "npz_roundtrip", lambda: {**case, "pixels_equal": bool(good_px), "metadata_keys_differing": bad,
                                                                "got": {k: str(meta1.get(k, "<missing>"))[:80] for k in bad}, "expected": {k: str(meta0[k])[:80] for k in bad}}, key=key,
                group=cls.__name__)
        kind_ok = isinstance(back, darsia.OpticalImage) if cls is darsia.OpticalImage else isinstance(back, darsia.Image)
        R.check(kind_ok, "npz_roundtrip_kind", {**case, "got": type(back).__name__}, key=key)
        # the reloaded image works as an image: same coordinate system
        R.check(np.array_equal(np.asarray(back.opposite_corner, float), np.asarray(img.opposite_corner, float)) and list(back.voxel_size) == list(img.voxel_size), "npz_roundtrip", case)
        R.sig(["npz", dim, series, payload, cls.__name__, np.dtype(dtype).name, time_kind, name is None], name is not None or time_kind != "none" or desc["origin_kind"] != "default",
              cls=f"npz/{cls.__name__}/{dim}d")
        if n < 1:
            R.sample(case)
        os.remove(path)

    # ================================================================ bytes
    for n in range(spec["n_bytes"]):
        if not R.want(["bytes", n]):
            continue
        rng = rng_for(spec["seed"], "C18", 100 + spec["shard"], n)
        shape = (int(rng.integers(1, 24)), int(rng.integers(1, 24)))
        depth = [np.uint8, np.uint16][int(rng.integers(0, 2))]
        layout = str(rng.choice(["grey", "single_channel", "colour"]))
        fmt = str(rng.choice([".png", ".tiff"]))
        full = shape + {"grey": (), "single_channel": (1,), "colour": (3,)}[layout]
        arr = rng.integers(0, np.iinfo(depth).max, size=full, endpoint=True).astype(depth)
        enc_in = cv2.cvtColor(arr, cv2.COLOR_RGB2BGR) if layout == "colour" else arr
        okc, buf = cv2.imencode(fmt, enc_in)
        case = {"shape": list(shape), "depth": np.dtype(depth).name, "layout": layout, "format": fmt}
        if not okc:
            R.skip("encoder_refused")
            continue
        kw = {"dimensions": [float(rng.uniform(0.1, 3)), float(rng.uniform(0.1, 3))]}
        if layout == "colour":
            kw["color_space"] = "RGB"
        ok, im = R.guarded("imread_from_bytes", lambda: darsia.imread_from_bytes(buf.tobytes(), **kw))
        if not ok:
            continue
        exp = arr if layout != "single_channel" else arr[..., 0]
        good = im.img.dtype == exp.dtype and im.img.shape == exp.shape and np.array_equal(im.img, exp)
        good &= isinstance(im, darsia.OpticalImage) if layout == "colour" else isinstance(im, darsia.ScalarImage)
        good &= list(im.dimensions) == kw["dimensions"]
        R.check(good, "bytes_roundtrip", lambda: {**case, "got_type": type(im).__name__, "got_dtype": str(im.img.dtype), "got_shape": list(im.img.shape)}, group=f"{layout}/{fmt}")
        R.sig(["bytes", layout, np.dtype(depth).name, fmt, list(shape)], True, cls=f"bytes/{layout}/{np.dtype(depth).name}/{fmt}")
        if n < 1:
            R.sample(case)

    # ======================================================== optical write
    for n in range(spec["n_write"]):
        if not R.want(["write", n]):
            continue
        rng = rng_for(spec["seed"], "C18", 200 + spec["shard"], n)
        shape = (int(rng.integers(2, 40)), int(rng.integers(2, 40)))
        depth = [np.uint8, np.uint16][n % 2]
        cspace = ["RGB", "RGB", "BGR"][n % 3]
        arr = rng.integers(0, np.iinfo(depth).max, size=shape + (3,), endpoint=True).astype(depth)
        img = darsia.OpticalImage(arr.copy(), dimensions=[1.0, 2.0], color_space=cspace)
        # lossless formats: png and tif for 8-bit data, tif (and png) for 16-bit data; the documented png compression
        # level 0..9 may accompany any of them
        suffix = [".png", ".tif", ".tiff", ".png"][int(rng.integers(0, 4))] if depth == np.uint8 else [".tif", ".tif", ".tiff", ".png"][int(rng.integers(0, 4))]
        path = tmp / f"w{n}{suffix}"
        wkw = {"compression": int(rng.integers(0, 10))} if rng.random() < 0.5 else {}
        if wkw:
            R.count("write_with_compression_option")
        case = {"shape": list(shape), "depth": np.dtype(depth).name, "color_space": cspace, "file": path.suffix, "write_options": dict(wkw)}
        before = snap(img)
        with quiet():
            ok, _ = R.guarded("write", lambda: img.write(path, **wkw))
        if not ok:
            continue
        R.check(snap(img) == before, "write_leaves_image_untouched", case)
        with quiet():
            ok, back = R.guarded("imread_optical", lambda: darsia.imread(path, dimensions=[1.0, 2.0]))
        if not ok:
            continue
        rgb = arr if cspace == "RGB" else arr[..., ::-1]
        exp = skimage.img_as_float(rgb)
        R.check(isinstance(back, darsia.OpticalImage) and back.color_space == "RGB" and back.img.shape == exp.shape and np.array_equal(back.img, exp), "optical_write_read",
                lambda: {**case, "max_diff": float(np.max(np.abs(back.img - exp))) if back.img.shape == exp.shape else "shape"}, group=f"{np.dtype(depth).name}/{cspace}")
        R.sig(["write", np.dtype(depth).name, cspace, list(shape)], True, cls=f"write/{np.dtype(depth).name}/{cspace}")
        # second generation: the image that was read back (float data, bit depth remembered) is written and read again
        path2 = tmp / f"w{n}_again{suffix}"
        with quiet():
            ok, _ = R.guarded("write", lambda: back.write(path2))
            if ok:
                ok, back2 = R.guarded("imread_optical", lambda: darsia.imread(path2, dimensions=[1.0, 2.0]))
        if ok:
            R.check(back2.img.shape == exp.shape and np.array_equal(back2.img, exp), "optical_write_read",
                    lambda: {**case, "generation": 2, "max_diff": float(np.max(np.abs(back2.img - exp))) if back2.img.shape == exp.shape else "shape"}, group=f"{np.dtype(depth).name}/{cspace}/second_generation")
            R.count("optical_written_again_after_reading")
        if path2.exists():
            os.remove(path2)
        os.remove(path)

    # ============================ several written images read back as one series: slice k carries the colours of the
    # k-th file handed to the reader (names with running numbers, without zero padding, or in any other given order)
    for n in range(max(1, spec["n_write"] // 3)):
        if not R.want(["write_list", n]):
            continue
        rng = rng_for(spec["seed"], "C18", 900 + spec["shard"], n)
        kq = n + spec["shard"]  # rotates the variants over shards as well (few cases per shard in the quick tier)
        shape = (int(rng.integers(2, 20)), int(rng.integers(2, 20)))
        cnt = int(rng.integers(2, 5))
        start = int(rng.choice([8, 9, 98, 1]))
        names = [[f"l{n}_frame_{start + k}.png" for k in range(cnt)], [f"l{n}_{'zyxw'[k]}_{k}.tif" for k in range(cnt)], [f"l{n}_f{k:03d}.png" for k in range(cnt)]][kq % 3]
        ldepth = [np.uint8, np.uint16][(kq // 3) % 2]  # 8-bit and 16-bit files
        arrs = [rng.integers(0, np.iinfo(ldepth).max, size=shape + (3,), endpoint=True).astype(ldepth) for _ in range(cnt)]
        if ldepth == np.uint16:
            R.count("files_16bit_read_as_list")
        paths = [tmp / nm for nm in names]
        okw = True
        for a_, p_ in zip(arrs, paths):
            with quiet():
                ok1, _ = R.guarded("write", lambda: darsia.OpticalImage(a_.copy(), dimensions=[1.0, 2.0], color_space="RGB").write(p_))
            okw &= ok1
        if not okw:
            continue
        times = [float(10 * k) for k in range(cnt)]
        as_str = bool(kq % 2)
        with quiet():
            ok, ser = R.guarded("imread_optical", lambda: darsia.imread([str(p_) for p_ in paths] if as_str else list(paths), time=list(times), dimensions=[1.0, 2.0]))
        if ok:
            good = bool(ser.series) and ser.time_num == cnt and ser.time == times
            found = []
            if good:
                for k in range(cnt):
                    fr = ser.time_slice(k).img
                    found.append([j for j in range(cnt) if np.array_equal(fr, skimage.img_as_float(arrs[j]))])
                good = all(f == [k] for k, f in enumerate(found))
            R.check(good, "files_read_in_given_order", lambda: {"names": names, "depth": np.dtype(ldepth).name, "paths_as_str": as_str, "slice_k_holds_file": found}, group=["running_numbers", "reverse_alphabetical", "zero_padded"][kq % 3])
        for p_ in paths:
            if p_.exists():
                os.remove(p_)

    # ========================================================== corrections
    def _call(c, x):
        try:
            return c(x.copy())
        except Exception as e:  # noqa
            return ("raised", f"{type(e).__name__}: {str(e)[:100]}")

    # spy at the boundary between a drift correction and its translation estimator: the image regions a correction
    # hands over while correcting an input are part of what it does with that input
    from vf.attach import wrap

    regions = []
    wrap(darsia.TranslationEstimator, "match_roi", before=lambda a, k: regions.append(snap({kk: k.get(kk) for kk in ("roi_src", "roi_dst")})))

    reuse_count = {}

    def roundtrip(label, corr, fresh_inputs, case, kmeans=False, generations=1):
        # file names are reused, as a user overwriting yesterday's file would: every second round trip of a kind of
        # correction goes through the same path as the one before
        reuse_count[label] = reuse_count.get(label, 0) + 1
        path = tmp / (f"corr-{label}.npz" if reuse_count[label] % 2 == 0 or reuse_count[label] % 4 == 1 else f"corr-{label}-{np.random.randint(1 << 30)}.npz")
        if path.name == f"corr-{label}.npz":
            R.count("correction_path_reused")
        with quiet():
            ok, _ = R.guarded(f"save:{label}", lambda: corr.save(path))
            if not ok:
                return
            ok, first_read = R.guarded(f"read_correction:{label}", lambda: darsia.read_correction(path))
            if ok:
                # the caller modifies what it got; reading the file again must give the stored correction
                for attr in ("active", "relative_padding"):
                    if hasattr(first_read, attr):
                        try:
                            setattr(first_read, attr, (not getattr(first_read, attr)) if attr == "active" else 0.33)
                        except Exception:
                            pass
                ok, back = R.guarded(f"read_correction:{label}", lambda: darsia.read_correction(path))
            for _g in range(generations - 1):  # saved and reloaded again, from the reloaded object
                if ok:
                    ok, _ = R.guarded(f"save:{label}", lambda: back.save(path))
                if ok:
                    ok, back = R.guarded(f"read_correction:{label}", lambda: darsia.read_correction(path))
        if not ok:
            return
        good = type(back) is type(corr)
        det = {}
        for i, x in enumerate(fresh_inputs):
            if kmeans:
                cv2.setRNGSeed(0)
            n0 = len(regions)
            ok1, a = True, _call(corr, x)
            if kmeans:
                cv2.setRNGSeed(0)
            n1 = len(regions)
            ok2, b = True, _call(back, x)
            if regions[n0:n1] != regions[n1:]:
                good = False
                det[f"input{i}:estimator_regions"] = {"original": str(regions[n0:n1])[:300], "reloaded": str(regions[n1:])[:300]}
            if n1 > n0:
                R.count("estimator_regions_compared")
            if not (ok1 and ok2):
                good = False
                det[f"input{i}"] = "raised"
                continue
            if isinstance(a, tuple) and isinstance(b, tuple) and a[0] == "raised" and b[0] == "raised":
                # both refuse the input in the same way: equivalent behaviour (counted, not judged further)
                if a[1] != b[1]:
                    good = False
                    det[f"input{i}"] = {"original": a[1], "reloaded": b[1]}
                R.skip(f"both_raise:{label}")
                continue
            if isinstance(a, tuple) or isinstance(b, tuple):
                good = False
                det[f"input{i}"] = {"original": str(a)[:80], "reloaded": str(b)[:80]}
                continue
            aa, bb = (a.img if hasattr(a, "img") else a), (b.img if hasattr(b, "img") else b)
            same = aa.dtype == bb.dtype and aa.shape == bb.shape and np.array_equal(aa, bb, equal_nan=True)
            if hasattr(a, "img"):
                same &= snap(a.metadata()) == snap(b.metadata())
            if not same:
                good = False
                det[f"input{i}"] = {"dtype": [str(aa.dtype), str(bb.dtype)], "shape": [list(aa.shape), list(bb.shape)],
                                    "max_diff": float(np.max(np.abs(aa.astype(float) - bb.astype(float)))) if aa.shape == bb.shape else None}
        R.check(good, "correction_roundtrip", lambda: {**case, "correction": label, "reloaded_type": type(back).__name__, **det}, group=label)
        R.sig(["corr", label, case], True, cls=f"correction/{label}")
        with contextlib.suppress(FileNotFoundError):
            os.remove(path)

    for n in range(spec["n_corr"]):
        if not R.want(["corr", n]):
            continue
        rng = rng_for(spec["seed"], "C18", 300 + spec["shard"], n)
        np.random.seed(int(rng.integers(0, 2**31)))
        shape = (int(rng.integers(12, 40)), int(rng.integers(12, 40)))
        with quiet():
            # type
            for tgt in (np.float32, np.float64, np.uint8, np.uint16, float, bool):
                x = rng.random(shape).astype(np.float32) if tgt is not bool else (rng.random(shape) > 0.5)
                roundtrip("type", darsia.TypeCorrection(tgt), [x, darsia.ScalarImage(np.asarray(x).copy(), dimensions=[1.0, 1.0])], {"data_type": getattr(tgt, "__name__", str(tgt))})
            # drift
            big = (96, 128)
            tex = np.zeros(big + (3,), np.uint8)
            for _ in range(140):
                cv2.circle(tex, (int(rng.integers(5, big[1] - 5)), int(rng.integers(5, big[0] - 5))), int(rng.integers(2, 7)), tuple(int(v) for v in rng.integers(40, 255, size=3)), -1)
            moved = np.roll(tex, (2, 3), axis=(0, 1))
            # a second input moves differently inside and outside the central region
            moved2 = np.roll(tex, (1, 5), axis=(0, 1))
            moved2[30:66, 40:88] = np.roll(tex, (4, 1), axis=(0, 1))[30:66, 40:88]
            pad = float(rng.choice([0.05, 0.1, 0.2]))
            for ci, cfg in enumerate(({}, {"active": False}, {"roi": (slice(5, 90), slice(8, 120))}, {"roi": [[5, 8], [90, 120]], "padding": 0.05},
                                      {"roi": [[20, 24], [76, 104]], "padding": pad}, {"roi": np.array([[18, 22], [78, 106]]), "padding": pad}, {"padding": pad},
                                      {"active": False, "roi": (slice(0, 30), slice(0, 40))})):
                roundtrip("drift", darsia.DriftCorrection(base=tex.copy(), config=dict(cfg)),
                          [moved.copy(), moved2.copy(), darsia.OpticalImage(moved.copy(), dimensions=[0.96, 1.28], color_space="RGB")],
                          {"config": {k: str(v) for k, v in cfg.items()}, "generations": 1 + (n + ci) % 2}, generations=1 + (n + ci) % 2)
            # curvature
            cfg = {"bulge": {"horizontal_bulge": float(rng.uniform(-2e-5, 2e-5)), "vertical_bulge": float(rng.uniform(-2e-5, 2e-5))},
                   "stretch": {"horizontal_stretch": float(rng.uniform(-2e-5, 2e-5)), "vertical_stretch": 0.0, "horizontal_center_offset": int(rng.integers(-2, 3)), "vertical_center_offset": 0}}
            if n % 2:
                cfg["crop"] = {"pts_src": [[1, 1], [1, shape[0] - 2], [shape[1] - 2, shape[0] - 2], [shape[1] - 2, 1]], "width": shape[1] * 0.01, "height": shape[0] * 0.01}
            if n % 2 and (spec["shard"] + n // 2) % 2 == 0:
                # corner points as typed voxels (row, col), as the crop() workflow stores them
                cfg["crop"]["pts_src"] = darsia.make_voxel([[1, 1], [shape[0] - 2, 1], [shape[0] - 2, shape[1] - 2], [1, shape[1] - 2]])
                R.count("curvature_crop_points_typed")
            cur = darsia.CurvatureCorrection(config=cfg)
            x = rng.random(shape + (3,)).astype(np.float32)
            roundtrip("curvature_unused", cur, [x, darsia.OpticalImage(x.copy(), dimensions=[1.0, 1.0], color_space="RGB")], {"config": "bulge/stretch" + ("/crop" if n % 2 else "")})
            # a correction set up for images at another resolution (resize_factor), saved before and after first use
            import copy as _copy

            rf = float(rng.choice([0.5, 2.0]))
            xr = rng.random((max(4, int(shape[0] * rf)), max(4, int(shape[1] * rf)), 3)).astype(np.float32)
            ok_rf, cur_rf = R.guarded("construct:curvature", lambda: darsia.CurvatureCorrection(config=_copy.deepcopy(cfg), resize_factor=rf))
            if ok_rf:
                roundtrip("curvature_resize_factor", cur_rf, [xr, darsia.OpticalImage(xr.copy(), dimensions=[1.0, 1.0], color_space="RGB")], {"config": "bulge/stretch" + ("/crop" if n % 2 else ""), "resize_factor": rf})
                R.count("curvature_resize_factor")
            # non-default interpolation order (an option given next to the config)
            io_ = int([0, 3, 2][(n + spec["shard"]) % 3])
            ok_io, cur_io = R.guarded("construct:curvature", lambda: darsia.CurvatureCorrection(config=_copy.deepcopy(cfg), interpolation_order=io_))
            if ok_io:
                roundtrip("curvature_interpolation_order", cur_io, [x, darsia.OpticalImage(x.copy(), dimensions=[1.0, 1.0], color_space="RGB")], {"config": "bulge/stretch" + ("/crop" if n % 2 else ""), "interpolation_order": io_})
                R.count("curvature_interpolation_order")
            cur2 = darsia.CurvatureCorrection(config=cfg)
            cur2(x.copy())  # populate the cache before saving
            roundtrip("curvature_used", cur2, [x, darsia.OpticalImage(x.copy(), dimensions=[1.0, 1.0], color_space="RGB")], {"config": "bulge/stretch" + ("/crop" if n % 2 else ""), "cache": True})
            # illumination
            pshape = (int(rng.integers(60, 100)), int(rng.integers(80, 130)))
            H, W = pshape
            yy, xx = np.mgrid[0:H, 0:W]
            vign = 1.0 - 0.4 * (((yy - H / 2) / H) ** 2 + ((xx - W / 2) / W) ** 2)
            flat = np.clip(0.6 * vign[..., None] * np.ones(3) + rng.normal(0, 0.003, size=(H, W, 3)), 0, 1).astype(np.float32)
            samples = [(slice(r, r + 10), slice(c, c + 10)) for r in (5, H // 2 - 5, H - 16) for c in (5, W // 2 - 5, W - 16)]
            for cspace in (["rgb-scalar", "rgb"] if n % 2 else ["hsl-scalar", "gray"]):
                ill = darsia.IlluminationCorrection()
                ok, _ = R.guarded("setup:illumination", lambda: ill.setup(darsia.OpticalImage(flat.copy(), dimensions=[1.0, 1.0], color_space="RGB"), samples, colorspace=cspace, interpolation="quartic"))
                if ok:
                    f = rng.random(pshape + (3,)).astype(np.float32)
                    roundtrip("illumination", ill, [f, darsia.OpticalImage(f.copy(), dimensions=[1.0, 1.0], color_space="RGB")], {"colorspace": cspace})
            # colour
            arr, roi, ref = checker_photo(rng, darsia, (int(rng.integers(90, 130)), int(rng.integers(130, 180))), [np.uint8, np.float32][n % 2])
            for opts in ({"whitebalancing": True, "colorbalancing": "affine"}, {"whitebalancing": False, "colorbalancing": "linear", "clip": True}, {"active": False}):
                ccfg = {"roi": [list(r_) for r_ in roi], **opts}
                cc = darsia.ColorCorrection(base=darsia.CustomColorChecker(reference_colors=ref), config=ccfg)
                # the caller goes on with its configuration dictionary and edits the region of interest in place (for
                # the next camera); the correction built before is not affected, neither live nor saved
                if isinstance(ccfg["roi"], np.ndarray):
                    ccfg["roi"] += 7
                else:
                    for row_ in ccfg["roi"]:
                        for j_ in range(len(row_)):
                            row_[j_] = row_[j_] + 7
                R.count("caller_config_edited_after_construction")
                roundtrip("colour", cc, [arr, darsia.OpticalImage(arr.copy(), dimensions=[1.0, 1.0], color_space="RGB")], {"options": {k: str(v) for k, v in opts.items()}}, kmeans=True)
        if n < 1:
            R.sample({"corrections_roundtripped": ["type", "drift", "curvature", "illumination", "colour"], "photo_shape": list(shape)})
    shutil.rmtree(tmp, ignore_errors=True)


MANIFEST = {
    "technique": "boundary monitors pairing save/encode/write with the matching reader and judging the reloaded object against a pre-save snapshot (pixels, dtype, every metadata key, image kind) and, for corrections, bitwise equal output on fresh inputs",
    "level_text": "Hundreds of random images over the whole metadata space are saved with Image.save and read back with imread; PNG/TIFF byte strings of 8/16-bit grey, single-channel and colour arrays are decoded with imread_from_bytes; optical images are written to lossless files and read back; Type, Drift, Curvature (with and without populated cache), Illumination and Colour corrections with varied configurations are saved, reloaded through read_correction and applied next to the original on fresh inputs. Every reloaded object is compared exactly with the snapshot of the original.",
    "level_note": "Sampled inputs; files live in a per-run temporary directory; only the lossless formats the code documents (PNG 8 bit, TIFF 16 bit) are judged for write/read.",
    "design_ref": "DESIGN.md section 3, C18",
}
