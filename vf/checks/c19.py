"""C19 - patching tiles an image exactly.

Monitors: icontract postcondition on ``Patches.__init__`` (structural invariant
of the constructed object: interiors partition the index set, every patch is the
advertised sub-image, advertised corners/centres agree in voxel and physical
units) and on ``Patches.assemble`` (re-assembly == base, bitwise).  C01/C02
contracts are attached ambiently (Patches uses subregion and the coordinate
system).
"""

from __future__ import annotations

import numpy as np

from vf.oracles import coords as CO

LEVEL = "exploration"
EXHAUSTIVE = {"quick": False, "thorough": False}
RULE = (
    "quick: every 2-D shape up to 12x12 x every pair of patch counts 1..6 (complete) with the overlap rotating through "
    "{0, .1, .25, .5}; thorough: shapes up to 40x40 (all <= 16x16 with all four overlaps, a sixth of the larger ones); "
    "scalar and colour payload and 3 physical dimension/origin settings rotate. Configurations for which "
    "patches cannot be built (a patch would be empty: ceil(extent/count)*(count-1) >= extent) are 'unsupported'. "
    "distinct = (shape, counts, overlap, payload, geometry); non-trivial = more than one patch"
)
TOLERANCES = {"pixel data": "bitwise", "corner/centre coordinates": "64*eps*(|origin| + |dimensions|)"}
ASSUMPTIONS = [
    "a configuration is buildable iff every patch is non-empty with patch size ceil(extent/count) voxels",
    "the voxel corners (global_corners_voxels) are the authoritative advertisement; physical corners must be their image under the base coordinate system",
]
FLOORS = {
    "quick": {"empty_trailing_patches_judged": 500, "caller_goes_on_working": 300, "integer_typed_geometry": 300, "patch_content_replaced": 150, "base_converted_before_patching": 400, "patched_again_after_move": 400, "assemble_equals_base": 1500, "interiors_partition": 1500, "patch_is_advertised_subimage": 12000, "corners_voxel_vs_physical": 12000},
    "thorough": {"empty_trailing_patches_judged": 1000, "caller_goes_on_working": 3000, "integer_typed_geometry": 3000, "patch_content_replaced": 1500, "base_converted_before_patching": 4000, "patched_again_after_move": 4000, "assemble_equals_base": 15000, "interiors_partition": 15000, "patch_is_advertised_subimage": 100000, "corners_voxel_vs_physical": 50000},
}
OVERLAPS = [0.0, 0.1, 0.25, 0.5]


def shards(tier, seed):
    k = 16
    return [{"shard": i, "nshards": k, "max": 12 if tier == "quick" else 40} for i in range(k)]


def buildable(n, cnt):
    pv = -(-n // cnt)
    return pv * (cnt - 1) < n


def judge_patches(R, P, case):
    """Invariant of a constructed Patches object."""
    import darsia

    base = P.base
    H, W = base.img.shape[:2]
    n0, n1 = P.num_patches[0], P.num_patches[1]
    eps = np.finfo(float).eps
    grp = f"{case.get('shape')}/{case.get('counts')}"
    # ---- interiors partition the index set
    cover = np.zeros((H, W), dtype=int)
    sub_ok = True
    if case.get("reduced"):
        good_r, first_r = True, None
        for i in range(n0):
            for j in range(n1):
                gc = np.asarray(P.global_corners_voxels[i, j])
                rel = P.relative_rois_without_overlap[i][j]
                inner = P(i, j).img[rel]
                blk = base.img[max(int(gc[0][0]), 0) : max(int(gc[1][0]), 0), max(int(gc[0][1]), 0) : max(int(gc[3][1]), 0)]
                if inner.size != blk.size or (inner.size and not np.array_equal(inner, blk)):
                    good_r, first_r = False, first_r or {"patch": [i, j], "advertised": gc.tolist(), "interior_shape": list(inner.shape), "block_shape": list(blk.shape)}
        R.check(good_r, "patch_is_advertised_subimage", lambda: {**case, "what": "configuration with empty trailing patches: advertised box vs interior", "first": first_r}, group="empty_trailing_patches")
        R.count("empty_trailing_patches_judged")
        return
    place_ok = True
    vs_ok = True
    adv_ok = True
    lookup_ok, lookups = True, 0
    bcs = base.coordinatesystem
    meta = (2, (H, W), [float(x) for x in base.dimensions], [float(x) for x in np.asarray(base.origin)])
    scale = np.array([abs(meta[3][c]) + abs(meta[2][m]) for c, (m, s) in enumerate(CO.TABLE[2])])
    for i in range(n0):
        for j in range(n1):
            roi = P.rois[i][j]
            rel = P.relative_rois_without_overlap[i][j]
            patch = P(i, j)
            r0, r1, _ = roi[0].indices(H)
            c0, c1, _ = roi[1].indices(W)
            ph, pw = patch.img.shape[:2]
            a0, a1, _ = rel[0].indices(ph)
            b0, b1, _ = rel[1].indices(pw)
            cover[r0 + a0 : r0 + a1, c0 + b0 : c0 + b1] += 1
            # each patch is the sub-image at its ROI ...
            if not np.array_equal(patch.img, base.img[r0:r1, c0:c1]):
                sub_ok = False
            # ... placed where the base says
            corners = np.array([[0, 0], [ph, 0], [ph, pw], [0, pw]])
            got = np.asarray(patch.coordinatesystem.coordinate(corners), float)
            exp = CO.coordinate(*meta, corners + np.array([r0, c0]))
            if np.any(np.abs(got - exp) > 64 * eps * scale):
                place_ok = False
            hb = CO.voxel_size(meta[1], meta[2])
            if any(abs(patch.dimensions[d] - [ph, pw][d] * hb[d]) > 64 * eps * scale[CO.MATRIX[2][d][0]] for d in range(2)):
                vs_ok = False
            # ... and its interior is the block at the advertised voxel corners
            gc = np.asarray(P.global_corners_voxels[i, j])
            box = (slice(gc[0][0], gc[1][0]), slice(gc[0][1], gc[3][1]))
            if not (np.array_equal(gc[0], [gc[3][0], gc[1][1]]) and np.array_equal(gc[2], [gc[1][0], gc[3][1]])):
                adv_ok = False
            elif not np.array_equal(patch.img[a0:a1, b0:b1], base.img[box]):
                adv_ok = False
            lc = np.asarray(P.local_corners_voxels[i, j])
            if not np.array_equal(lc, gc - gc[0]):
                adv_ok = False
            # ... also when looked up the way a user would: the sub-image of the base at the advertised corner voxels
            if (i in (0, n0 - 1) or j in (0, n1 - 1)) and a1 > a0 and b1 > b0:
                try:
                    found = base.subregion(darsia.make_voxel(gc))
                    if not (found.img.shape == base.img[box].shape and np.array_equal(found.img, base.img[box])):
                        lookup_ok = False
                except Exception:
                    lookup_ok = False
                lookups += 1
    R.check(bool(np.all(cover == 1)), "interiors_partition", lambda: {**case, "min": int(cover.min()), "max": int(cover.max())}, group=grp)
    R.check(sub_ok, "patch_is_advertised_subimage", {**case, "what": "patch != base[roi]"}, group=grp)
    R.check(adv_ok, "patch_is_advertised_subimage", {**case, "what": "interior != base[advertised voxel corners]"}, group=grp)
    if lookups:
        R.check(lookup_ok, "patch_is_advertised_subimage", {**case, "what": "interior != base.subregion(advertised corner voxels)"}, group=grp)
        R.count("typed_corner_lookups", lookups)
    R.count("patch_is_advertised_subimage", n0 * n1 - 1)
    R.check(place_ok, "patch_placement", case, group=grp)
    R.check(vs_ok, "patch_voxel_size", case, group=grp)
    # ---- advertised corners / centres: voxel vs physical units
    gcv = np.asarray(P.global_corners_voxels).reshape(-1, 2)
    gcc = np.asarray(P.global_corners_cartesian, float).reshape(-1, 2)
    exp = CO.coordinate(*meta, gcv)
    bad = np.abs(gcc - exp) > 64 * eps * scale
    if bad.any():
        # mechanism of the recorded finding: physical corners laid out on the metric grid
        # origin + (j*dims1/n1, -i*dims0/n0) while voxel corners use ceil(extent/count) voxels
        pm = [meta[2][0] / n0, meta[2][1] / n1]
        known = np.array([[[[j * pm[1], -i * pm[0]], [j * pm[1], -(i + 1) * pm[0]], [(j + 1) * pm[1], -(i + 1) * pm[0]], [(j + 1) * pm[1], -i * pm[0]]]
                           for j in range(n1)] for i in range(n0)], dtype=float).reshape(-1, 2) + np.array(meta[3])
        nondiv = (H % n0 != 0) or (W % n1 != 0)
        is_known = nondiv and bool(np.all(np.abs(gcc - known) <= 64 * eps * scale))
        # only axes with a non-divisible extent may disagree
        cols_bad = bad.any(axis=0)  # cartesian component x <-> matrix axis 1, y <-> matrix axis 0
        if (cols_bad[0] and W % n1 == 0) or (cols_bad[1] and H % n0 == 0):
            is_known = False
        R.check(False, "corners_voxel_vs_physical", {**case, "first": {"voxel": gcv[np.argwhere(bad.any(axis=1))[0][0]].tolist(),
                                                                        "advertised": gcc[np.argwhere(bad.any(axis=1))[0][0]].tolist(),
                                                                        "expected": exp[np.argwhere(bad.any(axis=1))[0][0]].tolist()}},
                key="C19:corners_voxel_vs_cartesian:extent_not_divisible" if is_known else None, group=grp)
    else:
        R.ok("corners_voxel_vs_physical", len(gcv))
    cv = np.asarray(P.global_centers_voxels).reshape(-1, 2)
    cc = np.asarray(P.global_centers_cartesian, float).reshape(-1, 2)
    good = True
    for k in range(len(cv)):
        idx, dist = CO.exact_voxel(*meta, cc[k])
        if min(dist) < 1e-9:
            R.skip("centre_on_voxel_face")
            continue
        if list(cv[k]) != idx:
            good = False
    R.check(good, "centres_voxel_vs_physical", case, group=grp)
    # centres and corners agree with each other: the advertised physical centre of a patch is the midpoint of its
    # advertised physical corners
    mid = np.asarray(P.global_corners_cartesian, float).reshape(-1, 4, 2).mean(axis=1)
    offm = np.abs(mid - cc) > 64 * eps * scale
    R.check(not offm.any(), "centre_is_midpoint_of_physical_corners",
            lambda: {**case, "first": {"patch": int(np.argwhere(offm.any(axis=1))[0][0]), "advertised_centre": cc[np.argwhere(offm.any(axis=1))[0][0]].tolist(),
                                       "midpoint_of_advertised_corners": mid[np.argwhere(offm.any(axis=1))[0][0]].tolist()}}, group=grp)


def run_shard(spec, R):
    import darsia

    from vf.attach import attach_post
    from vf.checks import c01
    from vf.gen.images import rng_for

    c01.attach(R)
    cur = {}

    def post_init(self):
        judge_patches(R, self, dict(cur))
        return True

    def post_assemble(self, result):
        want = self.base.img if ASSEMBLE_EXPECT.get("exp") is None else ASSEMBLE_EXPECT["exp"]
        R.check(np.array_equal(result.img, want) and result.img.dtype == self.base.img.dtype and type(result) is type(self.base),
                "assemble_equals_base", dict(cur), group=f"{cur.get('shape')}/{cur.get('counts')}")
        return True

    attach_post(darsia.Patches, "__init__", post_init, R)
    attach_post(darsia.Patches, "assemble", post_assemble, R)

    import contextlib
    import io

    rng = rng_for(spec["seed"], "C19", spec["shard"])
    mx = spec["max"]
    shapes = [(h, w) for h in range(1, mx + 1) for w in range(1, mx + 1)]
    if mx > 16:
        big = [s for s in shapes if max(s) > 16]
        keep = set(tuple(big[i]) for i in rng.choice(len(big), size=len(big) // 6, replace=False))
        shapes = [s for s in shapes if max(s) <= 16 or s in keep]
    counts = [(a, b) for a in range(1, 7) for b in range(1, 7)]
    case_no = 0
    for si, shape in enumerate(shapes):
        if si % spec["nshards"] != spec["shard"]:
            continue
        for ci, cnt in enumerate(counts):
            if not (buildable(shape[0], cnt[0]) and buildable(shape[1], cnt[1])):
                R.skip("unsupported:empty_patch")
                # the library builds such objects nevertheless (trailing patches are empty); of the property only the
                # clause that needs no buildability is judged: whatever box a patch advertises holds the patch's interior
                if (si + ci) % 3 == 0:
                    import contextlib
                    import io

                    arr_u = rng.integers(0, 255, size=shape, dtype=np.uint8)
                    cur.clear()
                    cur.update({"shape": list(shape), "counts": list(cnt), "rel_overlap": 0.0, "reduced": True})
                    with contextlib.redirect_stdout(io.StringIO()):
                        R.guarded("patches_with_empty_trailing_patches", lambda: darsia.Patches(darsia.Image(arr_u, space_dim=2, dimensions=[float(shape[0]), float(shape[1])], scalar=True), list(cnt)),
                                  unsupported=(Exception,))
                    cur.clear()
                continue
            for ov in (OVERLAPS if spec["max"] > 12 and max(shape) <= 16 else [OVERLAPS[(case_no + ci + spec["seed"]) % 4]]):
              case_no += 1
              _one(R, darsia, rng, cur, shape, cnt, ov, case_no)


LIVE = {}
ASSEMBLE_EXPECT = {}


def _one(R, darsia, rng, cur, shape, cnt, ov, case_no):
    import contextlib
    import io

    if True:
        if True:
            payload = ["scalar", "colour"][case_no % 2]
            geom = case_no % 3
            if not R.want([list(shape), list(cnt), ov, payload, geom]):
                return
            if geom == 0:
                dims, origin = [float(shape[0]), float(shape[1])], None
            elif geom == 1:
                dims, origin = [float(rng.uniform(0.2, 3)), float(rng.uniform(0.2, 3))], None
            else:
                dims = [float(10 ** rng.uniform(-2, 2)), float(10 ** rng.uniform(-2, 2))]
                origin = [float(rng.uniform(-5, 5) * dims[1]), float(rng.uniform(-5, 5) * dims[0])]
            if case_no % 5 == 3:
                # physical dimensions and origin written as plain integers (metres), as users do
                dims = [int(rng.integers(1, 9)), int(rng.integers(1, 9))]
                origin = [int(rng.integers(-7, 8)), int(rng.integers(-7, 8))] if case_no % 2 else None
                R.count("integer_typed_geometry")
            arr = rng.integers(0, 255, size=shape + ((3,) if payload == "colour" else ()), dtype=np.uint8)
            kw = dict(space_dim=2, dimensions=list(dims), scalar=(payload == "scalar"))
            own_origin = None
            if origin is not None:
                kw["origin"] = origin
                if case_no % 4 == 1:
                    own_origin = np.array([float(x) for x in origin])  # the caller's own array, re-used later on
                    kw["origin"] = own_origin
            base = darsia.Image(arr, **kw)
            base_origin0 = np.asarray(base.origin, float).copy()
            # history of the base image before it is patched: converted to another dtype (its original_dtype stays)
            conv = [None, None, "img_as(float)", None, "astype(float32)", None, "img = img / 255"][case_no % 7]
            if conv == "img_as(float)":
                base = base.img_as(float)
            elif conv == "astype(float32)":
                base = base.astype(np.float32)
            elif conv == "img = img / 255":
                base.img = base.img / 255.0
            if conv:
                arr = base.img.copy()
                R.count("base_converted_before_patching")
            cur.clear()
            cur.update({"shape": list(shape), "counts": list(cnt), "rel_overlap": ov, "payload": payload, "dimensions": dims, "origin": origin, "converted": conv})
            with contextlib.redirect_stdout(io.StringIO()):
                cnt_arg = list(cnt)  # the caller's own list of patch counts
                ok, P = R.guarded("patches_constructible", lambda: darsia.Patches(base, cnt_arg, rel_overlap=ov))
                if not ok:
                    return
                cnt_arg[0] = cnt_arg[0] + 1  # ... changed by the caller afterwards (e.g. for the next Patches object)
                R.check(list(P.num_patches) == list(cnt), "patch_counts_kept", {**cur, "num_patches_after_caller_changed_its_list": list(P.num_patches)})
                R.guarded("assemble", lambda: P.assemble())
            R.check(np.array_equal(base.img, arr), "base_unchanged", dict(cur))
            # the caller goes on working: his origin array is advanced in place for the next tile, and the assembled
            # image is moved in place; the patched image and what its Patches object advertises stay where they were
            if own_origin is not None or case_no % 4 == 3:
                with contextlib.redirect_stdout(io.StringIO()):
                    ok_a, asm_ = R.guarded("assemble", lambda: P.assemble())
                if own_origin is not None:
                    own_origin += np.array([float(dims[1]), 0.0])
                if ok_a and isinstance(asm_.origin, np.ndarray):
                    asm_.origin += np.asarray(3, dtype=asm_.origin.dtype)  # (integer-typed origins stay integer-typed)
                keep_w = cur.get("what")
                cur["what"] = "re-judged after the caller moved his origin array / the assembled image in place"
                judge_patches(R, P, dict(cur))
                R.check(np.allclose(np.asarray(base.origin, float), np.asarray(origin if origin is not None else base_origin0, float), rtol=0, atol=0), "base_stays_in_place",
                        lambda: {**cur, "base_origin_now": np.asarray(base.origin, float).tolist()})
                R.count("caller_goes_on_working")
                cur.pop("what", None) if keep_w is None else cur.update({"what": keep_w})
            # one patch gets new content (set_image): re-assembly is the base image with that patch's interior replaced;
            # the base image itself and the other patches keep their content
            if case_no % 5 == 2:
                pi_, pj_ = int(rng.integers(0, cnt[0])), int(rng.integers(0, cnt[1]))
                tgt = P.patches[pi_][pj_]
                if tgt.img.size:
                    newc = rng.integers(0, 255, size=tgt.img.shape).astype(tgt.img.dtype)
                    gcn = np.asarray(P.global_corners_voxels[pi_, pj_])
                    rel = P.relative_rois_without_overlap[pi_][pj_] if hasattr(P, "relative_rois_without_overlap") else None
                    others_before = [[P.patches[a_][b_].img.copy() for b_ in range(cnt[1])] for a_ in range(cnt[0])]
                    cur_keep = dict(cur)
                    cur["what"] = "after set_image on one patch"
                    ASSEMBLE_EXPECT["exp"] = None
                    # a refused request in between (content of another shape): the patch keeps what it held
                    try:
                        P.set_image(np.zeros((tgt.img.shape[0] + 2,) + tgt.img.shape[1:], dtype=tgt.img.dtype), pi_, pj_)
                    except Exception:
                        R.count("refused_set_image_in_between")
                    okp, _ = R.guarded("set_image", lambda: P.set_image(newc, pi_, pj_))
                    if okp and rel is not None:
                        exp_asm = base.img.copy()
                        box_ = (slice(gcn[0][0], gcn[1][0]), slice(gcn[0][1], gcn[3][1]))
                        exp_asm[box_] = newc[rel]
                        ASSEMBLE_EXPECT["exp"] = exp_asm
                        with contextlib.redirect_stdout(io.StringIO()):
                            R.guarded("assemble", lambda: P.assemble())
                        ASSEMBLE_EXPECT["exp"] = None
                        same_others = all(np.array_equal(P.patches[a_][b_].img, others_before[a_][b_]) for a_ in range(cnt[0]) for b_ in range(cnt[1]) if (a_, b_) != (pi_, pj_))
                        R.check(np.array_equal(base.img, arr) and same_others, "set_image_is_local", {**cur, "patch": [pi_, pj_]})
                        R.count("patch_content_replaced")
                        P.set_image(others_before[pi_][pj_], pi_, pj_)
                    cur.clear()
                    cur.update(cur_keep)
            # two live Patches objects: the previous case's object is assembled again now that another one exists
            if LIVE.get("prev") is not None and case_no % 4 == 0:
                keep = dict(cur)
                cur.clear()
                cur.update(LIVE["prev"][1])
                cur["what"] = "assembled again after another Patches object was built"
                with contextlib.redirect_stdout(io.StringIO()):
                    R.guarded("assemble", lambda: LIVE["prev"][0].assemble())
                R.count("two_live_patches_objects")
                cur.clear()
                cur.update(keep)
            LIVE["prev"] = (P, dict(cur))
            if case_no % 3 == 1:
                # history on the base image: it is moved in place (same shape and dimensions) and patched again,
                # the construction contract judges the second object as well
                new_origin = [float(rng.uniform(-5, 5) * dims[1]), float(rng.uniform(-5, 5) * dims[0])]
                base.update_metadata(origin=darsia.Coordinate(np.array(new_origin)))
                cnt2 = cnt
                cur.update({"origin": new_origin, "counts": list(cnt2), "history": "patched, moved in place, patched again"})
                with contextlib.redirect_stdout(io.StringIO()):
                    ok, P2 = R.guarded("patches_constructible", lambda: darsia.Patches(base, list(cnt2), rel_overlap=ov))
                    if ok:
                        R.guarded("assemble", lambda: P2.assemble())
                        R.count("patched_again_after_move")
            R.sig([list(shape), list(cnt), ov, payload, geom], nontrivial=cnt != (1, 1), cls=f"overlap={ov}/{payload}/geom{geom}/{'div' if shape[0] % cnt[0] == 0 and shape[1] % cnt[1] == 0 else 'nondiv'}")
            if case_no <= 2:
                R.sample(dict(cur))


MANIFEST = {
    "technique": "icontract postconditions (object invariant) on Patches.__init__ and Patches.assemble; cover-count monitor; ambient C01 contracts; exhaustive shape x count enumeration up to 12x12 (quick)",
    "level_text": "For every shape / patch-count / overlap configuration of the enumeration the real Patches object is built and its invariant judged at construction: interiors cover every voxel exactly once, each patch equals the base block at its ROI and sits at the right physical place with the base's voxel size, its interior equals the block at the advertised voxel corners, advertised voxel and physical corners and centres agree under the base coordinate system; assemble() is compared bitwise with the base.",
    "level_note": "quick enumerates all shapes <= 12x12 with all count pairs and a rotating overlap; thorough samples shapes above 16x16. Buildability is decided by the stated ceil rule.",
    "design_ref": "DESIGN.md section 3, C19",
}
