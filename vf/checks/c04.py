"""C04 - Wasserstein solvers: mass balance, self-consistency, honest status.

Monitors (all attached from the harness, no source hook):
  * wrapper on ``_solve`` capturing (distance, flat solution, info);
  * wrapper on ``linear_solve`` logging {call index, raised?} and acting as a
    failpoint (InjectedFault at a chosen call index);
  * ``sys.monitoring`` EXCEPTION_HANDLED filtered on the code object of the
    running ``_solve``: makes exceptions swallowed by the blanket handler visible;
  * the C07 grid contract and the C15 quadrature contracts (ambient).
Oracles: loop divergence (vf.oracles.gridmodel), independent cost functional
(vf.oracles.transport, numpy Gauss-Legendre nodes), recomputed stopping
inequalities, and - for every fault position k - comparison with the clean run
truncated to k iterations.
"""

from __future__ import annotations

import numpy as np

from vf.oracles import transport as TR
from vf.oracles.gridmodel import GridModel

LEVEL = "fault_enumeration"
EXHAUSTIVE = {"quick": False, "thorough": False}
RULE = (
    "clean runs: grids 1-D/2-D/3-D incl. single-cell axes and anisotropic voxels (<= 60 cells quick, <= 400 thorough) x "
    "mass kind {dense, compact support, single cell} (integer-valued, exactly equal mass) x method {newton, bregman, "
    "adaptive bregman} x 3 L1 modes x 5 mobility modes x formulation/back-end {full, flux_reduced, pressure} x {direct, "
    "amg, cg} x Anderson {off, depth 2} x cell weight {none, constant} x tolerances {default, tight}; quick = a seeded "
    "covering sample of the lattice, thorough = the full option lattice on 4 small grids + a larger sample. For every clean "
    "run with N iterations, the run is repeated with an injected failure of the linear solve of iteration k for each "
    "k in 0..min(N, K) (K = 3 quick, 6 thorough). distinct = (grid, mass kind, options, fault index); non-trivial = "
    "mass difference non-zero and >= 1 iteration ran"
)
TOLERANCES = {
    "mass balance": "1e-9 (direct) / 1e-6 (amg, cg) * max|cell mass difference|",
    "distance vs independent cost of the returned flux": "1e-10 relative",
    "distance vs library functional on the captured flux": "bitwise",
    "auxiliary outputs": "1e-12 relative",
    "fault: flux equals truncated clean run": "distance of the faulted run == k-th recorded distance of the clean run (1e-12 rel); k=0: flux == initial Darcy flux bitwise",
}
ASSUMPTIONS = [
    "the linear solve of iteration k is call index k+1 of linear_solve (index 0 = initial Darcy solve; Bregman's post-loop pressure solve is not an iteration)",
    "each fault position is injected at two depths: at the linear_solve boundary (the call raises at once) and inside it (the back-end object's solve() raises after linear_solve has done its own preparation)",
    "stopping inequalities are the ones documented in the two _solve methods, recomputed from convergence_history and the options",
]
FLOORS = {
    "quick": {"grid_with_scalar_voxel_size": 40, "verbose_runs": 50, "frontend_calls_in_a_row": 80, "mass_balance": 1500, "distance_is_cost_of_flux": 1500, "status_honest": 400, "fault:not_converged": 2000, "fault:last_valid_iterate": 2000, "fault:depth:backend": 1000, "fault:depth:after_update": 1000, "fault:depth:backend_returns_nan": 1000, "second_pair_on_same_object": 150, "lab_scale_cg_relative_tolerance_only": 10, "masses_as_uint8_images": 60, "monitoring_active": 1500},
    "thorough": {"grid_with_scalar_voxel_size": 400, "verbose_runs": 400, "frontend_calls_in_a_row": 600, "mass_balance": 12000, "distance_is_cost_of_flux": 12000, "status_honest": 3800, "fault:not_converged": 16000, "fault:last_valid_iterate": 16000, "fault:depth:backend": 8000, "fault:depth:after_update": 8000, "fault:depth:backend_returns_nan": 8000, "second_pair_on_same_object": 1500, "lab_scale_cg_relative_tolerance_only": 100, "masses_as_uint8_images": 600, "monitoring_active": 12000},
}
SHARD_TIMEOUT = {"quick": 1500, "thorough": 6000}

GRIDS_SMALL = [(6,), (3, 3), (4, 1), (2, 2, 2)]
GRIDS = [(2,), (5,), (12,), (1, 6), (7, 1), (2, 2), (3, 4), (5, 5), (7, 8), (1, 1, 4), (2, 1, 3), (2, 3, 2), (3, 3, 3), (4, 3, 5), (1, 5, 4)]
GRIDS_BIG = [(40,), (15, 20), (20, 20), (6, 8, 8), (10, 1, 30)]
FORMS = [("pressure", "direct"), ("full", "direct"), ("flux_reduced", "direct"), ("pressure", "amg"), ("pressure", "cg"), ("flux_reduced", "amg"), ("flux_reduced", "cg")]


def shards(tier, seed):
    from vf.gen.wass import L1, MOB

    rng = np.random.default_rng([seed, 4])
    cases = []
    methods = ["newton", "bregman", "bregman_adaptive"]
    if tier == "thorough":
        import itertools

        lattice = list(itertools.product(methods, L1, MOB, range(len(FORMS)), [0, 2]))
        for gi, g in enumerate(GRIDS_SMALL):
            for li, (m, l1, mob, fi, aa) in enumerate(lattice):
                cases.append({"grid": list(g), "method": m, "l1": l1, "mob": mob, "form": fi, "aa": aa, "mass": ["dense", "compact", "single"][(li + gi) % 3],
                              "weight": [None, 2.0, 0.3][(li // 3 + gi) % 3], "tight": (li + gi) % 4 == 0})
        n_sample, grids = 1500, GRIDS + GRIDS_BIG
    else:
        n_sample, grids = 420, GRIDS
    for i in range(n_sample):
        g = grids[i % len(grids)]
        cases.append({"grid": list(g), "method": methods[int(rng.integers(0, 3))], "l1": L1[int(rng.integers(0, 3))], "mob": MOB[(i + i // 15) % 5],
                      "form": int(rng.integers(0, len(FORMS))) if i % 3 else i // 3 % len(FORMS), "aa": int(rng.choice([0, 0, 2])),
                      "mass": ["dense", "compact", "single"][int(rng.integers(0, 3))], "weight": [None, None, 2.0, 0.3][int(rng.integers(0, 4))],
                      "tight": bool(rng.random() < 0.35)})
    for ci, c in enumerate(cases):
        c["id"] = ci
    k = 16
    K = 3 if tier == "quick" else 6
    return [{"shard": i, "cases": cases[i::k], "K": K} for i in range(k)]


def stopping_criteria_met(method, info, options):
    """Recompute the documented stopping inequalities at the last recorded iteration."""
    h = info["convergence_history"]
    fmax = np.finfo(float).max
    tr, ti, td = options.get("tol_residual", fmax), options.get("tol_increment", fmax), options.get("tol_distance", fmax)
    n = len(h["distance"])
    if n < 3:  # 'iter > 1' is part of the criterion
        return False
    with np.errstate(all="ignore"):
        if method == "newton":
            return bool(h["residual"][-1] < tr * h["residual"][0] and h["flux_increment"][-1] < ti * h["flux_increment"][0] and h["distance_increment"][-1] < td)
        return bool(h["aux_force_increment"][-1] < ti * h["aux_force_increment"][0] and h["distance_increment"][-1] / h["distance"][-1] < td
                    and h["mass_conservation_residual"][-1] < tr)


def run_shard(spec, R):
    import darsia

    from vf.checks import c07
    from vf.gen import wass
    from vf.gen.images import rng_for

    c07.attach(R, ["c04-workload"])
    K = spec["K"]
    for c in spec["cases"]:
        if not R.want(["case", c["id"]]):
            continue
        rng = rng_for(spec["seed"], "C04", 0, c["id"])
        shape = tuple(c["grid"])
        dim = len(shape)
        h = [float(10 ** rng.uniform(-0.7, 0.7)) for _ in shape]
        formulation, backend = FORMS[c["form"]]
        lab_scale_cg = backend == "cg" and formulation != "flux_reduced" and c["id"] % 3 == 0
        if lab_scale_cg:
            # millimetre voxels (right-hand sides of tiny norm) with only a relative tolerance requested: cg's
            # documented absolute tolerance default is 0, so the relative one decides
            h = [x * 1e-3 for x in h]
        scalar_grid = c["id"] % 9 == 5
        if scalar_grid:
            # cubic voxels, the grid given the documented scalar voxel size (one number for all axes)
            h = [h[0]] * dim
            R.count("grid_with_scalar_voxel_size")
        a, b = wass.mass_pair(rng, shape, c["mass"])
        m1, m2 = wass.images(darsia, a, b, h)
        if c["id"] % 5 == 2 and float(min(a.min(), b.min())) >= 0 and float(max(a.max(), b.max())) <= 255:
            # the same (integer-valued) masses held in 8-bit images, as photographs are
            m1, m2 = wass.images(darsia, a.astype(np.uint8), b.astype(np.uint8), h)
            R.count("masses_as_uint8_images")
        M = GridModel(shape, h)
        formulation, backend = FORMS[c["form"]]
        extra = {}
        if lab_scale_cg:
            extra = {"linear_solver_options": {"rtol": 1e-12, "maxiter": 5000}}
            R.count("lab_scale_cg_relative_tolerance_only")
        if c["tight"]:
            extra = {**extra, "tol_residual": 1e-8, "tol_increment": 1e-6, "tol_distance": 1e-8}
        if c["method"].startswith("bregman") and c["id"] % 8 == 4:
            extra = {**extra, "L": [2.0, 0.5][(c["id"] // 8) % 2]}  # Bregman penalty other than the default 1
        num_iter = 12 if c["tight"] else 6
        if c["method"].startswith("bregman") and backend in ("cg", "amg") and c["id"] % 4 == 2 and not lab_scale_cg:
            # an inexact inner solver, a mass-conservation tolerance far below what it delivers, loose other tolerances:
            # the run may stop early only when all documented criteria hold
            extra = {**extra, "tol_residual": 1e-14, "tol_increment": 1e-2, "tol_distance": 1e-2, "linear_solver_options": {"rtol": 1e-8, "atol": 1e-8, "maxiter": 500}}
            num_iter = 25
            R.count("strict_residual_tolerance_with_inexact_solver")
        verbose = c["id"] % 6 == 1
        if verbose:
            # progress output switched on (it goes to the worker's log); with the distance criterion as the only
            # binding one and room to meet it, so that 'converged' is decided by that criterion
            extra = {**extra, "verbose": True}
            if not c["tight"]:
                extra["tol_distance"] = 1e-3
                num_iter = 30
            R.count("verbose_runs")
        cw = c["weight"]
        weight_img = None
        if cw is not None:
            weight_img = darsia.Image(np.full(shape, float(cw)), space_dim=dim, dimensions=[shape[d] * h[d] for d in range(dim)], scalar=True)
        desc = {k: c[k] for k in ("id", "grid", "method", "l1", "mob", "aa", "mass", "weight", "tight")}
        desc.update({"formulation": formulation, "backend": backend, "voxel_size": h})
        grp = f"{c['method']}/{c['mob']}"
        mass_diff = (b - a)
        f_flat = M.flat(mass_diff) * M.volume
        fscale = max(float(np.max(np.abs(f_flat))), 1e-300)
        mb_tol = 1e-9 if backend == "direct" else 1e-6

        def seeded(call):
            """Runs of one case are compared with each other (faulted against clean, front end against solver object):
            pyamg's multilevel set-up draws from numpy's global generator (recorded finding of C16), so every run with
            an iterative back-end starts from the same ambient generator state - the workload's, not the library's."""
            if backend in ("amg", "cg"):
                np.random.seed(20260000 + c["id"])
            return call()

        ml_key = "C04:flux_reduced_iterative_backend_diverges_multilevel" if (formulation == "flux_reduced" and backend in ("amg", "cg") and M.num_cells + 1 > 100) else None

        def build(fail_at=None, deep=False):
            opt = wass.make_options(darsia, c["method"], c["l1"], c["mob"], formulation, backend, c["aa"], num_iter, extra)
            grid = darsia.Grid(shape, float(h[0])) if scalar_grid else darsia.generate_grid(m1)
            w1 = wass.solver_class(darsia, c["method"])(grid, weight_img, opt)
            return w1, wass.Capture(w1, fail_at=fail_at, deep=deep, fault_kind=c["id"] + (fail_at or 0)), opt

        def judge_common(w1, cap, out, label):
            """Clauses that must hold for clean and faulted runs alike; returns flux."""
            dist, sol, info = cap.solve_result
            flux = np.asarray(sol[w1.flux_slice], float)
            det = {**desc, "run": label}
            # mechanisms of the recorded findings
            aa_key = "C04:anderson_singular_least_squares" if (c["aa"] > 0 and cap.aa_singular) else None
            if aa_key is None and formulation == "flux_reduced" and backend in ("amg", "cg") and M.num_cells + 1 > 100:
                aa_key = "C04:flux_reduced_iterative_backend_diverges_multilevel"
            if not np.all(np.isfinite(flux)) or not np.isfinite(dist):
                R.check(False, "result_finite", {**det, "distance": float(dist)}, key=aa_key, group=grp)
                return None
            # (a) mass balance by the loop divergence
            res = M.divergence(flux) - f_flat
            if float(np.max(np.abs(res))) > mb_tol * fscale and any(
                    x.get("contrast", 1.0) > 1e10 and x.get("residual", 0.0) > mb_tol * fscale for x in cap.linear_calls):
                # 'to linear-solver precision': the linear back-end itself (direct or iterative) left a large
                # residual on a system whose coefficients span > 10 decades (eps-regularised mobility on exactly
                # vanishing fluxes: the backward error eps*|A|*|x| of even a stable LU is O(1) there). The
                # monitor measured that residual on the library's own matrix. C08 judges the back-ends on
                # well-conditioned systems.
                R.skip("mass_balance:linear_backend_precision_lost_on_degenerate_mobility")
                return None
            R.check(float(np.max(np.abs(res))) <= mb_tol * fscale, "mass_balance",
                    lambda: {**det, "max_residual": float(np.max(np.abs(res))), "scale": fscale, "aa_amplification": cap.aa_amplification}, key=aa_key, group=grp)
            # (b) distance is the cost of exactly that flux
            lib = float(w1.l1_dissipation(flux))
            R.check(float(dist) == lib, "distance_is_library_functional_of_flux", lambda: {**det, "distance": float(dist), "functional": lib},
                    key=lambda: "C04:failure_at_iteration0_distance_zero" if (label.startswith("fault@0") and float(dist) == 0.0) else None, group=grp)
            ind = TR.cost(M, flux, c["l1"], 1.0 if cw is None else float(cw))
            R.check(abs(float(dist) - ind) <= 1e-10 * max(abs(ind), 1e-300) + 1e-300, "distance_is_cost_of_flux", lambda: {**det, "distance": float(dist), "independent_cost": ind},
                    key=lambda: "C04:failure_at_iteration0_distance_zero" if (label.startswith("fault@0") and float(dist) == 0.0) else None, group=grp)
            # (c) auxiliary outputs derive from the same solution
            d_out, info_out = out
            R.check(float(d_out) == float(dist), "returned_distance_is_solved_distance", det)
            cellflux = M.face_to_cell(flux, np.full(dim, 0.5))
            sc = max(float(np.max(np.abs(flux))), 1e-300) if flux.size else 1.0
            sub = {}
            sub["cell_flux"] = np.shape(info_out["flux"]) == cellflux.shape and float(np.max(np.abs(info_out["flux"] - cellflux))) <= 1e-12 * sc
            td = np.asarray(info_out["transport_density"], float)
            tdm = TR.transport_density(M, flux, c["l1"], 1.0 if cw is None else float(cw))
            sub["transport_density"] = td.shape == shape and float(np.max(np.abs(M.flat(td) - tdm))) <= 1e-10 * max(float(np.max(np.abs(tdm))), 1e-300)
            sub["density_integrates_to_cost"] = abs(float(np.sum(td)) * M.volume - ind) <= 1e-10 * max(abs(ind), 1e-300)
            # the public density evaluation without cell weights (quadrature consumer of C15) on the same flux
            tdu = np.asarray(w1.transport_density(flux, weighted=False, flatten=True), float)
            tdu_m = TR.transport_density(M, flux, c["l1"], 1.0)
            sub["unweighted_transport_density"] = tdu.shape == tdu_m.shape and float(np.max(np.abs(tdu - tdu_m))) <= 1e-10 * max(float(np.max(np.abs(tdu_m))), 1e-300)
            # post-processing with another discretisation of the cost on the same object: the density follows the
            # object's current l1_mode
            other_l1 = [m_ for m_ in ("RAVIART_THOMAS", "CONSTANT_SUBCELL_PROJECTION", "CONSTANT_CELL_PROJECTION") if m_ != c["l1"]][c["id"] % 2]
            keep_mode = w1.l1_mode
            try:
                w1.l1_mode = getattr(darsia.L1Mode, other_l1)
                tdo = np.asarray(w1.transport_density(flux, weighted=False, flatten=True), float)
            finally:
                w1.l1_mode = keep_mode
            tdo_m = TR.transport_density(M, flux, other_l1, 1.0)
            sub["density_follows_current_l1_mode"] = tdo.shape == tdo_m.shape and float(np.max(np.abs(tdo - tdo_m))) <= 1e-10 * max(float(np.max(np.abs(tdo_m))), 1e-300)
            # what was handed out stays what it was when the object evaluates something else afterwards
            kept = {k: np.array(info_out[k], dtype=float, copy=True) for k in ("transport_density", "flux", "pressure")}
            probe_flux = 2.0 * flux + 1.0
            w1.transport_density(probe_flux, weighted=False, flatten=False)
            w1.transport_density(probe_flux, flatten=True)
            sub["outputs_intact_after_later_evaluation"] = all(np.array_equal(np.asarray(info_out[k], float), kept[k], equal_nan=True) for k in kept)
            press = np.asarray(info_out["pressure"], float)
            pflat = np.asarray(sol[w1.pressure_slice], float)
            sub["pressure_is_solution_block"] = press.shape == shape and np.array_equal(M.flat(press), pflat, equal_nan=True)
            pin = int(w1.constrained_cell_flat_index)
            sub["pressure_finite_and_pinned"] = bool(np.all(np.isfinite(pflat))) and abs(pflat[pin]) <= 1e-8 * max(float(np.max(np.abs(pflat))), 1e-300)
            sub["mass_diff"] = np.array_equal(np.asarray(info_out["mass_diff"]), mass_diff)
            if cw is not None:
                sub["weighted_flux"] = float(np.max(np.abs(np.asarray(info_out["weighted_flux"]) - cw * cellflux))) <= 1e-12 * abs(cw) * sc
            degenerate = any(x.get("contrast", 1.0) > 1e10 and x.get("residual", 0.0) > mb_tol * fscale for x in cap.linear_calls)
            if degenerate and not sub["pressure_finite_and_pinned"]:
                # the pressure comes out of a linear solve that measurably broke down on > 10 decades of
                # coefficient contrast (same rule as for the mass balance)
                R.skip("pressure:linear_backend_precision_lost_on_degenerate_mobility")
                sub["pressure_finite_and_pinned"] = True
            bad = [k for k, v in sub.items() if not v]
            R.check(not bad, "auxiliary_outputs_consistent", lambda: {**det, "failed": bad, "pinned_pressure": float(pflat[pin]) if pflat.size else None,
                                                                      "max_pressure": float(np.max(np.abs(pflat))) if pflat.size else None},
                    key=aa_key if (bad == ["pressure_finite_and_pinned"] and aa_key and "multilevel" in aa_key) else None, group=grp)
            R.count("monitoring_active", 1 if getattr(cap, "monitoring", False) else 0)
            return flux

        # ------------------------------------------------------------- clean run
        ok, built = R.guarded("solver_constructible", build)
        if not ok:
            continue
        w1, cap, opt = built
        ok, out = R.guarded("solve", lambda: seeded(lambda: w1(m1, m2)), key=lambda e, w: "C05:bregman_identical_or_zero_flux_raises" if False else None)
        if not ok:
            continue
        dist, sol, info = cap.solve_result
        flux = judge_common(w1, cap, out, "clean")
        n_iter_run = len(info["convergence_history"]["distance"])
        # (d) honest status
        met = stopping_criteria_met(c["method"], info, opt)
        conv = bool(info["converged"])
        swallowed = list(cap.swallowed)
        R.check((not conv) or (met and not swallowed), "status_honest",
                lambda: {**desc, "converged": conv, "criteria_met": met, "swallowed": swallowed, "iterations_recorded": n_iter_run},
                key=lambda: "C04:failure_reports_converged" if (conv and swallowed) else None, group=grp)
        R.check(info["number_iterations"] + 1 >= n_iter_run, "iteration_count_consistent", {**desc, "number_iterations": info["number_iterations"], "recorded": n_iter_run})
        R.event("run", case=c["id"], fault=None, linear_calls=len(cap.linear_calls), swallowed=swallowed, converged=conv, distance=float(dist))
        nontriv = bool(np.any(mass_diff != 0)) and n_iter_run >= 1
        R.sig([c["grid"], c["mass"], c["method"], c["l1"], c["mob"], formulation, backend, c["aa"], c["weight"], c["tight"], "clean"], nontriv,
              cls=f"{dim}d/{c['method']}/{formulation}/{backend}")
        if c["id"] < 2:
            R.sample({**desc, "distance": float(dist), "iterations": n_iter_run, "converged": conv, "swallowed": swallowed})
        # a second pair on the same solver object (Bregman with a penalty L != 1 included, see `extra`): the flux of
        # the second call balances the second pair's masses
        if c["id"] % 2 == 0 and flux is not None and not swallowed:
            a2, b2 = wass.mass_pair(rng, shape, c["mass"])
            m1b, m2b = wass.images(darsia, a2, b2, h)
            cap2 = wass.Capture(w1)
            ok, out2 = R.guarded("solve_second_pair", lambda: seeded(lambda: w1(m1b, m2b)), key=lambda e, w: ml_key)
            if ok and not cap2.swallowed:
                d2, sol2, _i2 = cap2.solve_result
                f2 = M.flat(b2 - a2) * M.volume
                fs2 = max(float(np.max(np.abs(f2))), 1e-300)
                flux2 = np.asarray(sol2[w1.flux_slice], float)
                if np.all(np.isfinite(flux2)):
                    res2 = M.divergence(flux2) - f2
                    if float(np.max(np.abs(res2))) > mb_tol * fs2 and any(x.get("contrast", 1.0) > 1e10 and x.get("residual", 0.0) > mb_tol * fs2 for x in cap2.linear_calls):
                        R.skip("mass_balance:linear_backend_precision_lost_on_degenerate_mobility")
                    else:
                        k2 = "C04:anderson_singular_least_squares" if (c["aa"] > 0 and cap2.aa_singular) else ml_key
                        R.check(float(np.max(np.abs(res2))) <= mb_tol * fs2, "mass_balance",
                                lambda: {**desc, "run": "second pair on the same object", "max_residual": float(np.max(np.abs(res2))), "scale": fs2}, key=k2, group=grp + "/second_call")
                        ind2 = TR.cost(M, flux2, c["l1"], 1.0 if cw is None else float(cw))
                        R.check(abs(float(d2) - ind2) <= 1e-10 * max(abs(ind2), 1e-300) + 1e-300, "distance_is_cost_of_flux",
                                lambda: {**desc, "run": "second pair on the same object", "distance": float(d2), "independent_cost": ind2}, key=k2, group=grp + "/second_call")
                        R.count("second_pair_on_same_object")
                        # the second run's status and history are its own
                        n2 = len(_i2["convergence_history"]["distance"])
                        R.check(n2 <= num_iter and _i2["number_iterations"] + 1 >= n2, "iteration_count_consistent",
                                {**desc, "run": "second pair on the same object", "number_iterations": _i2["number_iterations"], "recorded": n2, "num_iter": num_iter}, key=k2)
                        met2 = stopping_criteria_met(c["method"], _i2, opt)
                        R.check((not bool(_i2["converged"])) or met2, "status_honest",
                                lambda: {**desc, "run": "second pair on the same object", "converged": bool(_i2["converged"]), "criteria_met": met2, "iterations_recorded": n2}, key=k2, group=grp + "/second_call")
        # return_status path agrees
        if c["id"] % 7 == 0:
            opt2 = dict(opt)
            opt2["return_info"] = False
            opt2["return_status"] = True
            w2 = wass.solver_class(darsia, c["method"])(darsia.Grid(shape, float(h[0])) if scalar_grid else darsia.generate_grid(m1), weight_img, opt2)
            ok, rs = R.guarded("solve_status", lambda: seeded(lambda: w2(m1, m2)))
            if ok:
                rel = 1e-7 if (backend in ("amg", "cg") and M.num_cells > 99) else 0.0  # multilevel set-up is randomised (pyamg)
                R.check(isinstance(rs, tuple) and abs(float(rs[0]) - float(dist)) <= rel * abs(float(dist)) and (bool(rs[1]) == conv or rel > 0), "return_status_path_agrees",
                        {**desc, "got": str(rs)[:80], "info_path": [float(dist), conv]}, key=ml_key)
        # the unified entry point, twice in a row with the same options object: the same pair, then the same arrays
        # on a domain with other voxel sizes; each call agrees with a solver object set up for its own images
        if c["id"] % 3 == 0 and flux is not None and not swallowed and m1.img.dtype != np.uint8:
            fe_name = "newton" if c["method"] == "newton" else "bregman"
            h2 = [x * f for x, f in zip(h, (2.0, 0.5, 3.0))]
            m1c, m2c = wass.images(darsia, a, b, h2)
            # a scalar cell weight goes along as an image on the respective domain
            wimg2 = None if cw is None else darsia.Image(np.full(shape, float(cw)), space_dim=dim, dimensions=[shape[d] * h2[d] for d in range(dim)], scalar=True)
            opt_fe = wass.make_options(darsia, c["method"], c["l1"], c["mob"], formulation, backend, c["aa"], num_iter, extra)
            ok, fe = R.guarded("frontend_pair", lambda: (seeded(lambda: darsia.wasserstein_distance(m1, m2, fe_name, weight=weight_img, options=opt_fe)),
                                                         seeded(lambda: darsia.wasserstein_distance(m1c, m2c, fe_name, weight=wimg2, options=opt_fe))), key=lambda e, w: ml_key)
            if ok:
                w3 = wass.solver_class(darsia, c["method"])(darsia.generate_grid(m1c), wimg2, wass.make_options(darsia, c["method"], c["l1"], c["mob"], formulation, backend, c["aa"], num_iter, extra))
                ok, be = R.guarded("frontend_pair", lambda: seeded(lambda: w3(m1c, m2c)), key=lambda e, w: ml_key)
            if ok:
                rel = 1e-7 if (backend in ("amg", "cg") and M.num_cells > 99) else 1e-12
                d_fe1, d_fe2, d_be2 = float(fe[0][0]), float(fe[1][0]), float(be[0])
                good = abs(d_fe1 - float(dist)) <= rel * abs(float(dist)) and abs(d_fe2 - d_be2) <= rel * abs(d_be2)
                vs = [float(x) for x in fe[1][1]["grid"].voxel_size] if "grid" in fe[1][1] else None
                good = good and (vs is None or np.allclose(vs, h2, rtol=1e-12, atol=0))
                R.check(bool(good), "frontend_calls_in_a_row", lambda: {**desc, "first_call": d_fe1, "solver_object_first": float(dist), "second_call_other_voxel_size": d_fe2, "solver_object_second": d_be2,
                                                                        "second_voxel_size": h2, "grid_reported_by_second_call": vs, "cell_weight": cw}, key=ml_key, group=grp)
        if swallowed or flux is None:
            # the clean run itself stopped on an internal failure: no fault enumeration on top
            R.skip("fault_enumeration:clean_run_already_failed")
            continue

        # ---------------------------------------------------- fault enumeration
        hist = info["convergence_history"]["distance"]
        init_flux = None
        for k, deep in [(kk, dd) for kk in range(0, min(n_iter_run, K) + 1) for dd in (False, True, "post", "nan")]:
            if k >= n_iter_run and n_iter_run >= num_iter:
                break  # iteration k does not exist
            if k > n_iter_run - 1 and conv:
                break  # the clean run stopped before iteration k
            ok, built = R.guarded("solver_constructible", lambda: build(fail_at=k + 1, deep=deep))
            if not ok:
                continue
            wf, capf, _ = built
            ok, outf = R.guarded("solve_under_fault", lambda: seeded(lambda: wf(m1, m2)))
            if not ok:
                continue
            raised = [x for x in capf.linear_calls if x["raised"]] if deep not in ("post", "nan") else ([1] if capf.post_fired else [])
            if not raised:
                R.skip("fault_position_not_reached")
                continue
            R.event("run", case=c["id"], fault=k, linear_calls=len(capf.linear_calls), swallowed=capf.swallowed, converged=bool(capf.solve_result[2]["converged"]))
            label = f"fault@{k}" + {False: "/boundary", True: "/backend", "post": "/after_update", "nan": "/backend_returns_nan"}[deep]
            R.count("fault:depth:" + {False: "boundary", True: "backend", "post": "after_update", "nan": "backend_returns_nan"}[deep])
            desc = {**desc, "fault_site": label.split("/")[1]}
            post_key = {"post": "C04:iterate_advanced_before_failure", "nan": "C04:non_finite_iterate_accepted"}.get(deep)
            multilevel_iterative = backend in ("amg", "cg") and M.num_cells > 99
            if ml_key:  # the diverging back-end of the recorded finding returns different garbage in every run
                post_key = ml_key
            if deep != "nan":
                R.check(any("InjectedFault" in s for s in capf.swallowed) or not getattr(capf, "monitoring", False), "fault:observed_swallowed", {**desc, "k": k, "swallowed": capf.swallowed})
            df, solf, infof = capf.solve_result
            R.check(not bool(infof["converged"]), "fault:not_converged", {**desc, "k": k, "converged": bool(infof["converged"]), "number_iterations": infof["number_iterations"]},
                    key="C04:failure_reports_converged", group=grp)
            fl = judge_common(wf, capf, outf, label)
            if fl is None:
                continue
            # last valid iterate = clean run truncated to k iterations
            if k == 0:
                # initial Darcy flux: a clean run with a failpoint-free first solve gives it as call 0;
                # re-derive it from a fresh object solving only the initial system
                if init_flux is None:
                    w0, cap0, _ = build()
                    rhs0 = np.concatenate([np.zeros(M.num_faces), w0.mass_matrix_cells.dot(M.flat(mass_diff)), np.zeros(1)])
                    init_flux = np.asarray(w0.linear_solve(w0.darcy_init.copy(), rhs0.copy(), np.zeros_like(rhs0))[0][w0.flux_slice], float)
                # iterative back-ends on > 100 unknowns build a multilevel hierarchy whose set-up draws random test
                # vectors (pyamg): two runs agree to solver tolerance only; everything else is bitwise
                same = np.array_equal(fl, init_flux) if not multilevel_iterative else bool(np.allclose(fl, init_flux, rtol=0, atol=1e-7 * max(float(np.max(np.abs(init_flux))), 1e-300)))
                R.check(same, "fault:last_valid_iterate", {**desc, "k": 0, "maxdiff": float(np.max(np.abs(fl - init_flux))) if fl.size else 0.0}, key=post_key, group=grp)
            else:
                ref = hist[k - 1]
                R.check(abs(float(df) - ref) <= (1e-7 if multilevel_iterative else 1e-12) * max(abs(ref), 1e-300), "fault:last_valid_iterate",
                        {**desc, "k": k, "distance": float(df), "clean_history": ref}, key=post_key, group=grp)
            R.sig([c["grid"], c["mass"], c["method"], c["l1"], c["mob"], formulation, backend, c["aa"], c["weight"], c["tight"], k, deep], nontriv)


MANIFEST = {
    "technique": "boundary monitors on _solve / linear_solve with nth-call failpoints; sys.monitoring EXCEPTION_HANDLED to observe swallowed exceptions; loop-divergence and independent cost-functional oracles; fault enumeration over iteration indices",
    "level_text": "Each clean run over a covering sample (quick) or the full lattice (thorough, on 4 small grids, plus a larger sample) of grid x mass kind x method x L1 x mobility x formulation x back-end x Anderson x weight x tolerances is captured at the _solve boundary and judged: mass balance by an independent loop divergence, distance equal to the cost of exactly the returned flux (library functional bitwise and an independent quadrature), auxiliary outputs, and 'converged implies recomputed stopping criteria met and nothing swallowed' (swallowed exceptions are observed with sys.monitoring). Then, for every iteration index k up to K and each of four fault sites, the same run is repeated with an injected failure of that iteration; it must report non-converged and return the clean run's k-th iterate, mass-conserving and self-consistent.",
    "level_note": "Four fault sites per iteration index: the linear-solve boundary, inside the back-end's solve(), the first inner step after the iterate was advanced (cost evaluation), and a back-end that silently returns NaN; K = 3 (quick) / 6 (thorough) iterations per run; inputs are integer-valued so that masses are exactly equal; iterative back-ends on > 99 cells are compared at 1e-7 (pyamg's set-up is randomised).",
    "design_ref": "DESIGN.md section 3, C04",
}
