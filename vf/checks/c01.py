"""C01 - voxel <-> physical coordinate consistency.

Monitors: icontract postconditions on the real ``CoordinateSystem.coordinate`` /
``.voxel`` (ambient: they judge every call, also the indirect ones made by typed
points, ``Image.opposite_corner`` and other library code), plus direct clauses
on ``Image.origin / opposite_corner / voxel_size`` and the typed point objects.
Oracle: the literal convention table of vf.oracles.coords; the inverse map is
decided in exact rationals.
"""

from __future__ import annotations

import itertools

import numpy as np

from vf.oracles import coords as CO

LEVEL = "exploration"
EXHAUSTIVE = {"quick": False, "thorough": False}
RULE = (
    "random images: space_dim 1..3, extents 1..6 (quick) / 1..9 (thorough) incl. single-voxel axes, dimensions "
    "10^U(-4,4) per axis, origin default / user / far (1e3..1e6 voxel sizes away), scalar/vector/series payload; "
    "for each image every voxel plus a halo of 2 (negative and too-large indices), interior points at offsets "
    "{1e-6, 1/4, 1/2, 1-1e-6} per voxel, single and batch call forms, raw and typed points. "
    "distinct = (space_dim, shape, payload, series, origin kind); non-trivial = has halo points and a non-unit voxel size"
)
TOLERANCES = {
    "voxel->coordinate": "8*eps*(|origin| + |index|*h + |dimension|) per component",
    "coordinate->voxel": "exact (rational arithmetic); points closer than 1e-9 voxel to a face are skipped as ambiguous",
    "voxel 0 -> origin": "bitwise",
}
ASSUMPTIONS = ["axis orientation table of vf/oracles/coords.py (pinned by the baseline tests)"]
FLOORS = {
    "quick": {"contract:coordinate": 5000, "contract:voxel": 5000, "inverse_exact": 100000, "typed_roundtrip": 2000, "voxel0_is_origin_after_origin_change": 100, "sibling_images": 300, "callers_containers_overwritten": 100, "integer_index_types_agree": 2000, "large_batches": 8},
    "thorough": {"contract:coordinate": 50000, "contract:voxel": 50000, "inverse_exact": 1000000, "typed_roundtrip": 20000, "voxel0_is_origin_after_origin_change": 1000, "sibling_images": 3000, "callers_containers_overwritten": 1000, "integer_index_types_agree": 20000, "large_batches": 8},
}
OFFSETS = [1e-6, 0.25, 0.5, 1 - 1e-6]


def shards(tier, seed):
    k = 16
    n = 600 if tier == "quick" else 6000
    out = [{"shard": i, "nshards": k, "n": n // k + 1, "hi": 6 if tier == "quick" else 9} for i in range(k)]
    # the repository's own tests as one more workload under the same contracts
    out.append({"shard": k, "repo_tests": ["tests/unit/test_coordinatesystem.py", "tests/unit/test_point.py", "tests/unit/test_patches.py", "tests/unit/test_subregion.py",
                                           "tests/unit/test_affine.py", "tests/unit/test_coordinate_transformation.py", "tests/unit/test_arithmetics.py"]})
    return out


# ---------------------------------------------------------------- judgements
def cs_meta(cs):
    dim = cs.dim
    return dim, tuple(int(s) for s in cs.shape), [float(x) for x in cs.dimensions], [float(x) for x in np.asarray(cs._coordinate_of_origin_voxel)]


def judge_forward(R, meta, voxel, result, clause="contract:coordinate"):
    dim, shape, dims, origin = meta
    v = np.asarray(voxel, dtype=float)
    r = np.asarray(result, dtype=float)
    if v.shape != r.shape or v.size == 0:
        return R.check(v.shape == r.shape, clause, {"why": "shape", "in": list(v.shape), "out": list(r.shape)})
    exp = CO.coordinate(dim, shape, dims, origin, v)
    tol = CO.coord_tolerance(dim, shape, dims, origin, v)
    bad = np.abs(r - exp) > tol
    n = int(np.atleast_2d(v).shape[0])
    if not bad.any():
        R.ok(clause, n)
        return True
    i = int(np.argwhere(np.atleast_2d(bad).any(axis=1))[0][0])
    return R.check(
        False,
        clause,
        {"dim": dim, "shape": list(shape), "dimensions": dims, "origin": origin, "voxel": np.atleast_2d(v)[i].tolist(),
         "got": np.atleast_2d(r)[i].tolist(), "expected": np.atleast_2d(exp)[i].tolist()},
    )


def judge_inverse(R, meta, point, result, clause="contract:voxel"):
    dim, shape, dims, origin = meta
    p = np.atleast_2d(np.asarray(point, dtype=float))
    r = np.atleast_2d(np.asarray(result))
    if np.shape(point) != np.shape(result):
        return R.check(False, clause, {"why": "shape", "in": list(np.shape(point)), "out": list(np.shape(result))})
    good = True
    for k in range(p.shape[0]):
        idx, dist = CO.exact_voxel(dim, shape, dims, origin, p[k])
        amb = [d < 1e-9 for d in dist]
        if all(amb):
            R.skip("ambiguous_point_on_face")
            continue
        got = [int(x) for x in r[k]]
        okk = all(a or g == e for a, g, e in zip(amb, got, idx))
        if any(amb):
            R.skip("ambiguous_component_on_face")
        if okk:
            R.ok(clause)
            R.ok("inverse_exact")
        else:
            good = False
            R.check(
                False,
                clause,
                {"dim": dim, "shape": list(shape), "dimensions": dims, "origin": origin, "point": p[k].tolist(), "got": got,
                 "expected": idx, "dist_to_face": dist},
                key=_known_key_inverse,
            )
    return good


def _known_key_inverse():
    return None


def attach(R):
    """Ambient contracts on the real conversion methods."""
    import darsia

    from vf.attach import attach_post

    def post_coordinate(self, voxel, result):
        judge_forward(R, cs_meta(self), voxel, result)
        return True

    def post_voxel(self, coordinate, result):
        judge_inverse(R, cs_meta(self), coordinate, result)
        return True

    attach_post(darsia.CoordinateSystem, "coordinate", post_coordinate, R)
    attach_post(darsia.CoordinateSystem, "voxel", post_voxel, R)


# ------------------------------------------------------------------ workload
def run_shard(spec, R):
    import darsia

    from vf.gen.images import make_image, rng_for

    attach(R)
    if spec.get("repo_tests"):
        from vf.ambient import run_repo_tests

        return run_repo_tests(R, spec["repo_tests"])
    rng = rng_for(spec["seed"], "C01", spec["shard"])
    eps = np.finfo(float).eps
    for n in range(spec["n"]):
        dim = int(rng.integers(1, 4))
        hi = spec["hi"] if dim < 3 else min(spec["hi"], 6)
        shape = tuple(int(rng.integers(1, hi + 1)) for _ in range(dim))
        payload = str(rng.choice(["scalar", "vector"]))
        series = bool(rng.random() < 0.3)
        origin_kind = str(rng.choice(["default", "user", "far"]))
        unit = bool(rng.random() < 0.1)
        dims = [float(s) for s in shape] if unit else None
        if not R.want(n):
            # keep the generator stream aligned
            make_image(rng, dim, shape=shape, payload=payload, series=series, origin_kind=origin_kind, dimensions=dims,
                       time_kind="time" if series else "none")
            rng.random(dim)
            continue
        img, desc = make_image(rng, dim, shape=shape, payload=payload, series=series, origin_kind=origin_kind,
                               dimensions=dims, time_kind="time" if series else "none")
        jitter = rng.random(dim)
        dims = desc["dimensions"]
        origin = desc["origin"]
        meta = (dim, shape, dims, origin)
        case = {"n": n, **desc}
        h = CO.voxel_size(shape, dims)
        cs = img.coordinatesystem
        R.sig([dim, list(shape), payload, series, origin_kind], nontrivial=not unit, cls=f"{dim}d/{origin_kind}/{payload}{'/series' if series else ''}")
        if n < 2:
            R.sample(case)

        # ---- structural clauses on the Image attributes
        if origin_kind == "default":
            R.check(list(np.asarray(img.origin, float)) == CO.default_origin(dim, dims), "default_origin", case)
        z = cs.coordinate([0] * dim)
        R.check(np.array_equal(np.asarray(z, float), np.asarray(img.origin, float)) and isinstance(z, darsia.Coordinate), "voxel0_is_origin", case)
        opp = np.asarray(img.opposite_corner, float)
        disp = opp - np.asarray(origin)
        expd = np.array([s * dims[m] for (m, s) in CO.TABLE[dim]])
        told = np.array([8 * eps * (abs(origin[c]) + abs(dims[m])) for c, (m, s) in enumerate(CO.TABLE[dim])])
        R.check(bool(np.all(np.abs(disp - expd) <= told)), "opposite_corner_displaced_by_dimensions", lambda: {**case, "displacement": disp.tolist(), "expected": expd.tolist()})
        R.check(np.allclose(np.asarray(img.voxel_size, float), h, rtol=4 * eps, atol=0), "voxel_size_is_dimension_over_extent", case)
        # unit steps
        base = np.array([int(rng.integers(-2, s + 2)) for s in shape])
        c0 = np.asarray(cs.coordinate(base), float)
        good = True
        for m in range(dim):
            e = np.zeros(dim, int)
            e[m] = 1
            c1 = np.asarray(cs.coordinate(base + e), float)
            cc, sgn = CO.MATRIX[dim][m]
            for c in range(dim):
                if c == cc:
                    if abs((c1[c] - c0[c]) - sgn * h[m]) > 8 * eps * (abs(origin[c]) + (abs(base[m]) + 2) * h[m]):
                        good = False
                elif c1[c] != c0[c]:
                    good = False
        R.check(good, "unit_step_moves_one_voxel_size_on_right_axis", lambda: {**case, "base": base.tolist()})

        # ---- history on one image object: the coordinate system was used above; now the origin (and then the
        # dimensions) are changed in place through the public setters and the conversions must follow
        if n % 4 == 0:
            hist = img.copy()
            _ = hist.coordinatesystem.coordinate([0] * dim)
            new_origin = [float(x) for x in (np.asarray(origin) + rng.uniform(-3, 3, size=dim) * np.array(dims[::-1] if dim > 1 else dims))]
            how = ["update_metadata", "assign", "reset_origin"][(n // 4) % 3]
            if how == "update_metadata":
                hist.update_metadata(origin=darsia.Coordinate(np.array(new_origin)))
            elif how == "assign":
                hist.origin = darsia.Coordinate(np.array(new_origin))
            else:
                hist.update_metadata(origin=darsia.Coordinate(np.array(new_origin)))
                _ = hist.coordinatesystem
                hist.reset_origin()
                new_origin = CO.default_origin(dim, dims)
            hmeta = (dim, shape, dims, [float(x) for x in new_origin])
            hcase = {**case, "history": f"use coordinatesystem, then {how}", "new_origin": new_origin}
            z2 = hist.coordinatesystem.coordinate([0] * dim)
            R.check(np.array_equal(np.asarray(z2, float), np.asarray(hist.origin, float)) and np.allclose(np.asarray(hist.origin, float), new_origin, rtol=0, atol=0),
                    "voxel0_is_origin_after_origin_change", hcase)
            hv = np.array(list(itertools.product(*[range(-1, s + 1) for s in shape])), dtype=int)
            judge_forward(R, hmeta, hv, hist.coordinatesystem.coordinate(hv), "forward_after_origin_change")
            hp = CO.coordinate(dim, shape, dims, new_origin, hv + 0.5)
            judge_inverse(R, hmeta, hp, hist.coordinatesystem.voxel(hp), "inverse_after_origin_change")
            opp2 = np.asarray(hist.opposite_corner, float)
            R.check(bool(np.all(np.abs((opp2 - np.asarray(new_origin)) - expd) <= 8 * eps * (np.abs(new_origin) + np.abs(expd)))), "opposite_corner_after_origin_change", hcase)
            # ... and new physical dimensions through update_metadata
            dims2 = [float(d * rng.uniform(0.5, 2.0)) for d in dims]
            hist.update_metadata(dimensions=list(dims2))
            hmeta2 = (dim, shape, dims2, [float(x) for x in np.asarray(hist.origin)])
            judge_forward(R, hmeta2, hv, hist.coordinatesystem.coordinate(hv), "forward_after_dimension_change")
            R.check(np.allclose(np.asarray(hist.voxel_size, float), CO.voxel_size(shape, dims2), rtol=4 * eps, atol=0), "voxel_size_after_dimension_change", hcase)

        # ---- sibling image objects: same array shape (and, for one of them, same dimensions) placed elsewhere or
        # sized differently, built while this image's coordinate system is alive; each is judged on its own metadata
        # and this image's system once more afterwards
        if n % 4 == 2:
            md = img.metadata()
            o2 = [float(x) for x in (np.asarray(origin) + rng.uniform(-3, 3, size=dim) * np.array(dims[::-1] if dim > 1 else dims))]
            d2 = [float(d * rng.uniform(0.5, 2.0)) for d in dims]
            sv = np.array(list(itertools.product(*[range(-1, s + 1) for s in shape])), dtype=int)
            for label, mo, mdims in (("moved", o2, dims), ("resized", [float(x) for x in origin], d2), ("moved_and_resized", o2, d2)):
                md2 = dict(md)
                md2["origin"] = darsia.Coordinate(np.array(mo))
                md2["dimensions"] = list(mdims)
                ok, sib = R.guarded("sibling_image", lambda: type(img)(img.img.copy(), **md2))
                if not ok:
                    continue
                smeta = (dim, shape, list(mdims), mo)
                judge_forward(R, smeta, sv, sib.coordinatesystem.coordinate(sv), f"forward_sibling_{label}")
                sp = CO.coordinate(dim, shape, list(mdims), mo, sv + 0.5)
                judge_inverse(R, smeta, sp, sib.coordinatesystem.voxel(sp), f"inverse_sibling_{label}")
                judge_forward(R, meta, sv, cs.coordinate(sv), "forward_after_sibling")
                judge_forward(R, meta, sv, img.coordinatesystem.coordinate(sv), "forward_after_sibling")
                R.count("sibling_images")

        # ---- caller-owned containers: an image built from the caller's own dimensions list and origin array keeps its
        # geometry when the caller overwrites them afterwards, or builds the next image from the same list with the
        # height / width / depth keywords
        if n % 4 == 1:
            own_dims = [float(d) for d in dims]
            own_origin = np.array([float(x) for x in origin])
            md_o = dict(img.metadata())
            md_o["dimensions"], md_o["origin"] = own_dims, own_origin
            ok, kept = R.guarded("sibling_image", lambda: type(img)(img.img.copy(), **md_o))
            if ok:
                kept_cs = kept.coordinatesystem
                svo = np.array(list(itertools.product(*[range(-1, s + 1) for s in shape])), dtype=int)
                judge_forward(R, meta, svo, kept_cs.coordinate(svo), "forward_image_from_callers_containers")
                md_n = dict(md_o)
                md_n[["height", "width", "depth"][int(rng.integers(0, dim))] if dim > 1 else "height"] = float(dims[0] * 1.5)
                R.guarded("sibling_image", lambda: type(img)(img.img.copy(), **md_n))
                own_dims[0] *= 3.0
                own_dims[-1] += 1.0
                own_origin += 5.0
                judge_forward(R, meta, svo, kept.coordinatesystem.coordinate(svo), "forward_after_callers_containers_overwritten")
                spo = CO.coordinate(dim, shape, dims, origin, svo + 0.5)
                judge_inverse(R, meta, spo, kept.coordinatesystem.voxel(spo), "inverse_after_callers_containers_overwritten")
                judge_forward(R, meta, svo, kept_cs.coordinate(svo), "forward_after_callers_containers_overwritten")
                R.count("callers_containers_overwritten")

        # ---- one large batch (more than 2**17 points) per shard: every point of a batch is converted, wherever it sits
        # in the batch; forward by the table, inverse by agreement with the same points handed over in small batches
        if n == 0:
            nbig = 2**17 + 77
            cols = [rng.integers(-2, shape[d] + 2, size=nbig) for d in range(dim)]
            vbig = np.stack(cols, axis=1).astype(int)
            judge_forward(R, meta, vbig, cs.coordinate(vbig), "forward_large_batch")
            pbig = CO.coordinate(dim, shape, dims, origin, vbig + 0.5)
            big_back = np.asarray(cs.voxel(pbig))
            small_back = np.concatenate([np.asarray(cs.voxel(pbig[i : i + 4096])) for i in range(0, nbig, 4096)], axis=0)
            R.check(big_back.shape == small_back.shape and np.array_equal(big_back, small_back) and np.array_equal(big_back, vbig), "large_batch_equals_small_batches",
                    lambda: {**case, "points": nbig, "first_bad_row": int(np.argwhere((big_back != vbig).any(axis=1))[0][0]) if big_back.shape == vbig.shape and (big_back != vbig).any() else None})
            R.count("large_batches")

        # ---- forward map: every voxel + halo, batch and single, raw and typed
        halo = 2
        vox = np.array(list(itertools.product(*[range(-halo, s + halo) for s in shape])), dtype=int)
        batch = cs.coordinate(vox)
        judge_forward(R, meta, vox, batch, "forward_batch")
        R.check(isinstance(batch, darsia.CoordinateArray), "forward_type", case)
        pick = rng.choice(len(vox), size=min(12, len(vox)), replace=False)
        for k in pick:
            v = vox[k]
            forms = [v, v.tolist(), tuple(int(x) for x in v), darsia.Voxel(v), darsia.make_voxel(v.tolist())]
            for f in forms:
                ok, single = R.guarded("forward_single", lambda: cs.coordinate(f))
                if ok:
                    R.check(np.array_equal(np.asarray(single, float), np.asarray(batch, float)[k]), "single_equals_batch_row", lambda: {**case, "voxel": v.tolist()})
            tv = darsia.Voxel(v).to_coordinate(cs)
            R.check(np.array_equal(np.asarray(tv, float), np.asarray(batch, float)[k]) and isinstance(tv, darsia.Coordinate), "typed_equals_raw", case)
        tb = darsia.make_voxel(vox).to_coordinate(cs)
        R.check(np.array_equal(np.asarray(tb, float), np.asarray(batch, float)), "typed_equals_raw", case)
        # index arrays of other integer types (unsigned ones for the non-negative voxels) are indices all the same
        nonneg = np.all(vox >= 0, axis=1)
        for it_ in (np.int32, np.int16, np.uint8, np.uint16, np.uint32, np.uint64):
            sel_ = vox[nonneg] if np.issubdtype(it_, np.unsignedinteger) else vox
            if len(sel_) == 0 or np.max(np.abs(sel_)) > np.iinfo(it_).max:
                continue
            ok_i, bi_ = R.guarded("forward_batch", lambda: cs.coordinate(sel_.astype(it_)))
            if ok_i:
                R.check(np.array_equal(np.asarray(bi_, float), np.asarray(batch, float)[nonneg] if np.issubdtype(it_, np.unsignedinteger) else np.asarray(batch, float)),
                        "integer_index_types_agree", lambda: {**case, "index_dtype": np.dtype(it_).name})

        # ---- inverse map: interior points of every voxel (+halo)
        offs = OFFSETS + [float(x) for x in np.clip(jitter, 1e-6, 1 - 1e-6)][:1]
        for t in offs:
            frac = vox + t
            pts = CO.coordinate(dim, shape, dims, origin, frac)  # float construction of the physical point
            back = cs.voxel(pts)
            judge_inverse(R, meta, pts, back, "inverse_batch")
            R.check(isinstance(back, darsia.VoxelArray) and np.asarray(back).dtype.kind == "i", "inverse_type", case)
            for k in pick[:6]:
                for f in (pts[k], pts[k].tolist(), darsia.Coordinate(pts[k])):
                    ok, single = R.guarded("inverse_single", lambda: cs.voxel(f))
                    if ok:
                        R.check(np.array_equal(np.asarray(single), np.asarray(back)[k]), "single_equals_batch_row", lambda: {**case, "point": pts[k].tolist()})
                tv = darsia.Coordinate(pts[k]).to_voxel(cs)
                R.check(np.array_equal(np.asarray(tv), np.asarray(back)[k]) and isinstance(tv, darsia.Voxel), "typed_equals_raw", case)
            tb = darsia.make_coordinate(pts).to_voxel(cs)
            R.check(np.array_equal(np.asarray(tb), np.asarray(back)), "typed_equals_raw", case)

        # ---- physical points given in whole units (integer-typed arrays, lists of ints, typed points built from them):
        # judged by the contract like any other point (points on a voxel face are skipped there)
        ipts = np.unique(np.round(CO.coordinate(dim, shape, dims, origin, vox + 0.5)).astype(int), axis=0)[:200]
        ok_i, iback = R.guarded("inverse_batch", lambda: cs.voxel(ipts))
        if ok_i:
            fback = np.asarray(cs.voxel(ipts.astype(float)))
            R.check(np.array_equal(np.asarray(iback), fback), "integer_typed_points_equal_float_points", lambda: {**case, "first_bad": ipts[np.argwhere((np.asarray(iback) != fback).any(axis=1))[0][0]].tolist()})
            for k_ in range(min(4, len(ipts))):
                for f_ in (ipts[k_].tolist(), darsia.Coordinate(ipts[k_])):
                    ok_s, s_ = R.guarded("inverse_single", lambda: cs.voxel(f_) if not isinstance(f_, darsia.Coordinate) else f_.to_voxel(cs))
                    if ok_s:
                        R.check(np.array_equal(np.asarray(s_), fback[k_]), "integer_typed_points_equal_float_points", lambda: {**case, "point": ipts[k_].tolist(), "form": type(f_).__name__})
        # a refused request in between (a vector of the wrong length, something that is no array) does not move the
        # kept coordinate system
        for bad_ in (np.zeros(dim + 2), "no array", [[0.0] * (dim + 1)]):
            try:
                cs.coordinate_vector(bad_)
            except Exception:
                pass
        judge_forward(R, meta, vox[:50], cs.coordinate(vox[:50]), "forward_after_refused_request")
        R.count("refused_request_in_between")

        # ---- centre -> coordinate -> voxel is the identity (typed, incl. negative indices)
        vc = darsia.make_voxel_center(vox)
        R.check(np.array_equal(np.asarray(vc, float), vox + 0.5), "voxel_center_is_index_plus_half", case)
        cc = vc.to_coordinate(cs)
        judge_forward(R, meta, vox + 0.5, cc, "centre_forward")
        bk = cc.to_voxel(cs)
        okk = np.array_equal(np.asarray(bk), vox)
        R.check(okk, "typed_roundtrip", lambda: {**case, "first_bad": vox[np.argwhere((np.asarray(bk) != vox).any(axis=1))[0][0]].tolist()})
        R.count("typed_roundtrip", len(vox) - 1)
        bkc = cc.to_voxel_center(cs)
        R.check(np.array_equal(np.asarray(bkc, float), vox + 0.5), "typed_roundtrip", case)
        # fractional voxel positions (centres and other interior positions) written as plain lists / tuples /
        # lists of lists are positions like the same numbers in an array
        fr = vox + float(offs[-1])
        fbatch = np.asarray(cs.coordinate(fr), float)
        ok_l, lbatch = R.guarded("forward_batch_list", lambda: cs.coordinate(fr.tolist()))
        if ok_l:
            R.check(np.array_equal(np.asarray(lbatch, float), fbatch), "list_form_equals_array_form", lambda: {**case, "what": "batch of fractional positions as list of lists"})
        for k in pick[:6]:
            for f in ((vox[k] + 0.5).tolist(), tuple(float(x) for x in vox[k] + 0.5), fr[k].tolist()):
                ok_l, single = R.guarded("forward_single", lambda: cs.coordinate(f))
                if ok_l:
                    exp_l = np.asarray(cs.coordinate(np.asarray(f, float)), float)
                    R.check(np.array_equal(np.asarray(single, float), exp_l), "list_form_equals_array_form",
                            lambda: {**case, "position": list(f), "form": type(f).__name__, "got": np.asarray(single, float).tolist(), "array_form": exp_l.tolist()})
        # pure type conversions (no coordinate system involved)
        tv = vc.to_voxel()
        bad = np.argwhere((np.asarray(tv) != vox).any(axis=1))
        R.check(
            len(bad) == 0,
            "voxelcenter_to_voxel_identity",
            lambda: {**case, "voxel": vox[bad[0][0]].tolist(), "got": np.asarray(tv)[bad[0][0]].tolist()},
            key=lambda: "C01:voxelcenter_to_voxel_truncates_negative" if (vox[bad[:, 0]] < 0).any(axis=1).all() else None,
        )
        for k in pick[:6]:
            v = vox[k]
            s1 = darsia.VoxelCenter(v).to_voxel()
            R.check(np.array_equal(np.asarray(s1), v), "voxelcenter_to_voxel_identity", lambda: {**case, "voxel": v.tolist(), "got": np.asarray(s1).tolist()},
                    key="C01:voxelcenter_to_voxel_truncates_negative" if (v < 0).any() else None)
            s2 = darsia.Voxel(v).to_voxel_center()
            R.check(np.array_equal(np.asarray(s2, float), v + 0.5), "voxel_to_voxelcenter_plus_half", case)
            s3 = darsia.Voxel(v).to_voxel()
            R.check(np.array_equal(np.asarray(s3), v), "voxel_to_voxel_identity", case)
            s4 = darsia.Coordinate(np.asarray(batch, float)[k]).to_coordinate()
            R.check(np.array_equal(np.asarray(s4, float), np.asarray(batch, float)[k]), "coordinate_to_coordinate_identity", case)


MANIFEST = {
    "technique": "icontract postconditions on CoordinateSystem.coordinate/.voxel (ambient) plus typed-point clauses; literal convention table; exact-rational floor oracle",
    "level_text": "Thousands of random image geometries (1-3-D, single-voxel axes, 8 decades of dimensions, origins up to 1e6 voxel sizes away, all payloads) are driven through the real conversion functions for every voxel plus a halo of out-of-range indices, in single, batch, raw and typed call forms. Every call is judged by a postcondition: forward map against the literal convention table at a few ulps, inverse map against an exact rational floor; structural clauses (voxel 0 = origin, opposite corner, unit steps, centre round trip) on the same executions.",
    "level_note": "Sampled inputs; points within 1e-9 voxel of a face are not judged (specification is rounding-dependent there); trusts the literal orientation table in vf/oracles/coords.py, which restates what the baseline tests pin.",
    "design_ref": "DESIGN.md section 3, C01",
}
