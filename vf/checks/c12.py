"""C12 - colour balancing recovers exact colour maps and composes correctly.

Monitors: icontract postconditions (with an icontract snapshot of the balance
before the fit) on ``find_balance`` of WhiteBalance / ColorBalance /
AffineBalance / AdaptiveBalance.  Every fit that happens - also the per-stage
fits created inside AdaptiveBalance - is logged with the parameters it
produced, so that the accumulated balance can be compared with the sequential
application of the recorded stages.
"""

from __future__ import annotations

import itertools

import numpy as np

LEVEL = "exploration"
EXHAUSTIVE = {"quick": False, "thorough": False}
RULE = (
    "random swatch sets (4x6x3 and flat Nx3, N in 6..30, values in [0.05, 0.95], condition number of [S 1] <= 50) x ground-truth "
    "diagonal / linear / affine maps within 15% of the identity; (single) each balance class fitted from identity and re-fitted "
    "on a second data set from where it stood; (staged) AdaptiveBalance with every ordered pair and triple of modes "
    "{diagonal, linear, affine} (all 36 sequences per round); (correction) the white-balance-then-colour-balance path of "
    "ColorCorrection.correct_array is covered by C10. distinct = (class or mode sequence, swatch layout, truth kind, round); "
    "non-trivial = the ground-truth map differs from the identity"
)
TOLERANCES = {
    "residual never increases": "residual_after <= residual_before * (1 + 1e-9) + 1e-18",
    "exact map recovered": "max |apply(src) - dst| <= 1e-5 (Powell, tol 1e-6)",
    "colour correction of an exactly distorted checker photo": "corrected swatch colours within 1.5e-2 of the reference (coarse end-to-end bound: float32 photo, area resampling of the checker, k-means swatch extraction leave up to 7e-3)",
    "accumulated == sequential stages": "1e-10 absolute on swatch values in [0, 1]",
}
ASSUMPTIONS = ["balances act on row vectors: x -> x @ A + b (apply_balance)", "a later stage is fitted on the swatches pre-balanced by the accumulated balance (AdaptiveBalance.find_balance)"]
FLOORS = {
    "quick": {"contract:residual_not_increased": 500, "exact_map_recovered": 150, "accumulated_equals_sequential": 140, "contract:stage_fit_logged": 500, "correction_recovers_reference_swatches": 20, "integer_source_swatches": 15, "staged_after_reset": 100, "staged_fit_final_residual_judged": 4, "noise_free_photo_corrected": 4},
    "thorough": {"contract:residual_not_increased": 5000, "exact_map_recovered": 1500, "accumulated_equals_sequential": 1400, "contract:stage_fit_logged": 5000, "correction_recovers_reference_swatches": 200, "integer_source_swatches": 150, "staged_after_reset": 1000, "staged_fit_final_residual_judged": 40, "noise_free_photo_corrected": 40},
}
SHARD_TIMEOUT = {"quick": 1500, "thorough": 6000}
MODES = ["diagonal", "linear", "affine"]


def shards(tier, seed):
    k = 16
    rounds = 4 if tier == "quick" else 40
    seqs = [list(s) for L in (2, 3) for s in itertools.product(MODES, repeat=L)]
    items = [{"kind": "staged", "seq": s, "round": r} for r in range(rounds) for s in seqs]
    items += [{"kind": "correction", "round": r, "wb": bool(r % 2), "cb": ["affine", "linear"][(r // 2) % 2]} for r in range(rounds * 2)]
    items += [{"kind": "single", "cls": c, "truth": t, "round": r} for r in range(rounds * 3) for c, t in
              (("WhiteBalance", "diagonal"), ("ColorBalance", "linear"), ("ColorBalance", "diagonal"), ("AffineBalance", "affine"), ("AffineBalance", "linear"),
               ("AdaptiveBalance", "affine"))]
    for i, it in enumerate(items):
        it["id"] = i
    out = [{"shard": i, "items": items[i::k]} for i in range(k)]
    out.append({"shard": k, "items": [], "repo_tests": ["tests/unit/test_correction.py"]})
    return out


def gen_swatches(rng):
    for _ in range(200):
        if rng.random() < 0.5:
            S = rng.uniform(0.05, 0.95, size=(4, 6, 3))
        else:
            S = rng.uniform(0.05, 0.95, size=(int(rng.integers(6, 31)), 3))
        flat = S.reshape(-1, 3)
        if np.linalg.cond(np.hstack([flat, np.ones((len(flat), 1))])) <= 50:
            return S
    return S


def gen_truth(rng, kind):
    if kind == "diagonal":
        return np.diag(1 + rng.uniform(-0.15, 0.15, size=3)), np.zeros(3)
    A = np.eye(3) + rng.uniform(-0.15, 0.15, size=(3, 3))
    b = rng.uniform(-0.1, 0.1, size=3) if kind == "affine" else np.zeros(3)
    return A, b


def run_shard(spec, R):
    import icontract

    import darsia
    from darsia.corrections.color import colorbalance as CB
    from vf.attach import MonitorError

    stage_log = []  # (class name, scaling, translation) of every fit that happened, in order
    last_adaptive = []  # the staged balance object of the last fit with the swatches it was given

    def residual(bal, src, dst):
        return float(np.sum((bal.apply_balance(src) - dst) ** 2))

    def snap_before(self, swatches_src, swatches_dst):
        return residual(self, swatches_src, swatches_dst)

    def post(self, swatches_src, swatches_dst, OLD):
        after = residual(self, swatches_src, swatches_dst)
        stage_log.append((type(self).__name__, np.array(self.balance_scaling, float).copy(), np.array(getattr(self, "balance_translation", np.zeros(3)), float).copy()))
        if type(self).__name__ == "AdaptiveBalance":
            last_adaptive[:] = [self, np.array(swatches_src, float).copy(), np.array(swatches_dst, float).copy()]
        R.count("contract:stage_fit_logged")
        key = "C12:adaptive_balance_composes_in_column_vector_order" if type(self).__name__ == "AdaptiveBalance" else None
        R.check(after <= OLD.before * (1 + 1e-9) + 1e-18, "contract:residual_not_increased",
                lambda: {"class": type(self).__name__, "residual_before": OLD.before, "residual_after": after}, key=key, group=type(self).__name__)
        return True

    for cls in (CB.WhiteBalance, CB.ColorBalance, CB.AffineBalance, CB.AdaptiveBalance):
        wrapped = icontract.ensure(post, error=MonitorError)(cls.find_balance)
        wrapped = icontract.snapshot(snap_before, name="before")(wrapped)
        cls.find_balance = wrapped

    from vf.gen.images import rng_for

    if spec.get("repo_tests"):
        # colour correction of the repository's test photograph: the real white-balance-then-colour-balance path
        from vf.ambient import run_repo_tests

        return run_repo_tests(R, spec["repo_tests"])
    errs_by_dtype = {}
    dbg_fin = []
    for it in spec["items"]:
        if not R.want(["item", it["id"]]):
            continue
        rng = rng_for(spec["seed"], "C12", 0, it["id"])
        if it["kind"] == "correction":
            # the staged path in real use: ColorCorrection (white balance, then colour balance) on synthetic
            # colour-checker photos whose swatches are an exact affine / linear distortion of the reference
            # colours; the same correction object is used on several different photos (call history)
            import cv2

            from vf.checks.c10 import checker_photo

            corr = None
            for call in range(3):
                dt = [np.float32, np.uint16, np.float64, np.uint8][(it["round"] + call) % 4]
                if call == 2:
                    dt = [np.float32, np.uint16, np.float64][(it["round"] // 4) % 3]  # the noise-free photo is not 8 bit
                amp = [0.08, 0.02, 3e-3, 5e-4][(it["round"] + call) % 4]  # strong to very weak colour casts
                full = call == 2  # the third photo shows the checker at template size (noise-free swatch extraction)
                arr, roi, ref = checker_photo(rng, darsia, (int(rng.integers(100, 140)), int(rng.integers(150, 200))), dt, linear_only=(it["cb"] == "linear"), ref=None if corr is None else ref0,
                                              amplitude=amp, full_size=full)
                if corr is None:
                    ref0 = ref
                    corr = darsia.ColorCorrection(base=darsia.CustomColorChecker(reference_colors=ref0), config={"roi": roi, "whitebalancing": it["wb"], "colorbalancing": it["cb"]})
                else:
                    corr.roi = darsia.make_voxel(roi)
                cv2.setRNGSeed(0)
                del last_adaptive[:]
                ok, out = R.guarded("colour_correction", lambda: corr.correct_array(arr))
                if not ok:
                    break
                if last_adaptive:
                    # the swatches the correction itself extracted are an (up to float32 rounding) exact affine / linear
                    # image of the reference: its accumulated staged balance reproduces the reference on them
                    balo, s_src, s_dst = last_adaptive
                    fin = float(np.max(np.abs(balo.apply_balance(s_src) - s_dst)))
                    if full and np.dtype(dt) != np.uint8:
                        R.check(fin <= 1e-4, "exact_map_recovered", lambda: {"whitebalancing": it["wb"], "colorbalancing": it["cb"], "cast_amplitude": amp, "dtype": np.dtype(dt).name,
                                                                             "max_swatch_residual_of_staged_balance": fin, "via": "ColorCorrection on a noise-free checker photo"},
                                group=f"correction/{it['wb']}/{it['cb']}")
                        R.count("staged_fit_final_residual_judged")
                cv2.setRNGSeed(0)
                got = darsia.CustomColorChecker(image=corr._restrict_to_roi(out)).swatches_rgb
                err = float(np.max(np.abs(got - ref0)))
                errs_by_dtype.setdefault(np.dtype(dt).name, []).append(err)
                if full and np.dtype(dt) != np.uint8:
                    # noise-free photo: the swatches read off the corrected photo are the reference colours to optimiser
                    # tolerance, whatever the strength of the colour cast
                    dbg_fin.append((amp, np.dtype(dt).name, True, err))
                    R.check(err <= 2e-4, "exact_map_recovered", lambda: {"whitebalancing": it["wb"], "colorbalancing": it["cb"], "cast_amplitude": amp, "dtype": np.dtype(dt).name,
                                                                         "max_swatch_error_after_correction": err, "via": "ColorCorrection on a noise-free checker photo"},
                            group=f"correction/{it['wb']}/{it['cb']}")
                    R.count("noise_free_photo_corrected")
                R.check(err <= 1.5e-2, "correction_recovers_reference_swatches", lambda: {"whitebalancing": it["wb"], "colorbalancing": it["cb"], "call": call, "dtype": np.dtype(dt).name, "max_swatch_error": err}, group=f"{it['wb']}/{it['cb']}")
            R.sig(["correction", it["wb"], it["cb"], it["round"]], True, cls="correction")
            continue
        S = gen_swatches(rng)
        layout = "4x6x3" if S.ndim == 3 else "Nx3"
        if it["kind"] == "single":
            A, b = gen_truth(rng, it["truth"])
            int_src = it["round"] % 3 == 2 and it["cls"] != "AdaptiveBalance"
            if int_src:
                # integer-typed source swatches (8 bit), real-valued destinations in the same range
                S = np.round(S * 255).astype(np.uint8)
                b = 255 * b
                layout += "/uint8"
                R.count("integer_source_swatches")
            unit = 255.0 if int_src else 1.0
            dst = S.astype(float) @ A + b
            bal = getattr(darsia, it["cls"])() if hasattr(darsia, it["cls"]) else getattr(CB, it["cls"])()
            case = {"class": it["cls"], "truth": it["truth"], "layout": layout, "A": A.tolist(), "b": b.tolist()}
            ok, _ = R.guarded("find_balance", lambda: bal.find_balance(S, dst))
            if ok:
                err = float(np.max(np.abs(bal.apply_balance(S) - dst)))
                R.check(err <= 1e-5 * unit, "exact_map_recovered", lambda: {**case, "max_error": err}, group=it["cls"])
                # __call__ path and the functional shortcuts give the same result on fresh objects
                fresh = getattr(CB, it["cls"])()
                ok2, out = R.guarded("call", lambda: fresh(S, S, dst))
                if ok2:
                    R.check(float(np.max(np.abs(out - dst))) <= 1e-5 * unit, "exact_map_recovered", {**case, "via": "__call__"}, group=it["cls"])
                # a second object of the same class is fitted to other data while this one is alive: this one still
                # reproduces its own destinations
                So = gen_swatches(rng)
                Ao, bo = gen_truth(rng, it["truth"])
                other = getattr(CB, it["cls"])()
                oko, _ = R.guarded("find_balance", lambda: other.find_balance(So, So @ Ao + bo))
                if oko:
                    erro = float(np.max(np.abs(bal.apply_balance(S) - dst)))
                    R.check(erro <= 1e-5 * unit, "exact_map_recovered", lambda: {**case, "after": "another object of the class was fitted", "max_error": erro}, group=it["cls"])
                    R.count("two_live_balances")
                # re-fit on a second exact data set from where the balance stands
                S2 = gen_swatches(rng)
                A2, b2 = gen_truth(rng, it["truth"])
                if int_src:
                    S2 = np.round(S2 * 255).astype(np.uint8)
                    b2 = 255 * b2
                dst2 = S2.astype(float) @ A2 + b2
                ok3, _ = R.guarded("find_balance", lambda: bal.find_balance(S2, dst2))
                if ok3 and it["cls"] != "AdaptiveBalance":
                    err2 = float(np.max(np.abs(bal.apply_balance(S2) - dst2)))
                    R.check(err2 <= 1e-5 * unit, "exact_map_recovered", lambda: {**case, "refit": True, "max_error": err2}, group=it["cls"])
            R.sig(["single", it["cls"], it["truth"], layout, it["round"]], True, cls=f"single/{it['cls']}/{it['truth']}")
            if it["id"] % 50 == 0:
                R.sample(case)
            continue
        # ------------------------------------------------------------ staged
        seq = it["seq"]
        A, b = gen_truth(rng, "affine")
        dst = S @ A + b
        bal = CB.AdaptiveBalance()
        case = {"modes": seq, "layout": layout, "A": A.tolist(), "b": b.tolist()}
        stages = []
        good_run = True
        X = rng.uniform(0, 1, size=(7, 3))  # fresh colours to compare the two ways of applying
        # every stage but the last is fitted towards its own target (another exact affine image of the sources), so
        # no stage is trivial; the last stage is fitted towards the final destinations
        stage_dst = []
        for si in range(len(seq)):
            if si == len(seq) - 1 or it["round"] % 2 == 0:
                stage_dst.append(dst)
            else:
                Ak, bk = gen_truth(rng, "affine")
                stage_dst.append(S @ Ak + bk)
        case["own_target_per_stage"] = it["round"] % 2 == 1
        for si, mode in enumerate(seq):
            n0 = len(stage_log)
            ok, _ = R.guarded("find_balance", lambda: bal.find_balance(S, stage_dst[si], mode))
            if not ok:
                good_run = False
                break
            new = stage_log[n0:]
            inner = [e for e in new if e[0] != "AdaptiveBalance"]
            R.check(len(inner) == 1, "one_stage_fit_per_call", {**case, "stage": si, "logged": [e[0] for e in new]})
            if len(inner) != 1:
                good_run = False
                break
            stages.append(inner[0])
            # sequential application of the recorded stage balances
            seqX, seqS = X.copy(), S.copy()
            for _, As, bs in stages:
                seqX = seqX @ As + bs
                seqS = seqS @ As + bs
            accX, accS = bal.apply_balance(X), bal.apply_balance(S)
            errc = max(float(np.max(np.abs(accX - seqX))), float(np.max(np.abs(accS - seqS))))
            nontrivial_comp = si >= 1
            R.check(errc <= 1e-10, "accumulated_equals_sequential", lambda: {**case, "stage": si, "max_difference": errc},
                    key="C12:adaptive_balance_composes_in_column_vector_order" if nontrivial_comp else None, group="/".join(seq[: si + 1]))
        if good_run and seq[-1] == "affine":
            # the last stage can represent the truth exactly: the staged fit must reproduce the destinations
            err = float(np.max(np.abs(bal.apply_balance(S) - dst)))
            R.check(err <= 1e-5, "exact_map_recovered", lambda: {**case, "max_error": err, "via": "staged"},
                    key="C12:adaptive_balance_composes_in_column_vector_order", group="/".join(seq))
        if good_run:
            # the same object after reset(): identity again, then stages without translation towards an exact
            # diagonal / linear image of the sources
            ok, _ = R.guarded("reset", lambda: bal.reset())
            if ok:
                R.check(np.array_equal(bal.apply_balance(X), X), "reset_is_identity", lambda: {**case, "max_difference": float(np.max(np.abs(bal.apply_balance(X) - X)))})
                seq2 = [["diagonal"], ["linear"], ["diagonal", "linear"], ["linear", "diagonal"]][it["round"] % 4]
                A2, b2 = gen_truth(rng, "diagonal" if seq2 == ["diagonal"] else "linear")
                dst2 = S @ A2 + b2
                ok2 = True
                for mode in seq2:
                    ok2, _ = R.guarded("find_balance", lambda: bal.find_balance(S, dst2, mode))
                    if not ok2:
                        break
                if ok2:
                    err = float(np.max(np.abs(bal.apply_balance(S) - dst2)))
                    R.check(err <= 1e-5, "exact_map_recovered", lambda: {**case, "after_reset": seq2, "max_error": err, "via": "staged after reset"}, group="reset/" + "/".join(seq2))
                R.count("staged_after_reset")
        R.sig(["staged", seq, layout, it["round"]], True, cls="staged/" + "/".join(seq))
        if it["id"] % 50 == 0:
            R.sample(case)
    _dbg_dump(dbg_fin)


def _dbg_dump(dbg):  # pragma: no cover (development aid)
    import os
    if os.environ.get("VERIF_DBG_C12") and dbg:
        print("DBGFIN", sorted([d for d in dbg if d[2]], key=lambda t: -t[3])[:6])


MANIFEST = {
    "technique": "icontract postconditions with snapshots on find_balance of all four balance classes (residual before/after, per-stage parameter log); sequential-composition oracle; exact-map recovery",
    "level_text": "Every fit executed - including the stage fits created inside AdaptiveBalance - passes through a postcondition that compares the swatch residual with the snapshot taken before the fit and logs the fitted parameters; exact diagonal/linear/affine ground truths must be reproduced to 1e-5; for every ordered pair and triple of staged modes the accumulated balance is compared (1e-10) with applying the logged stage balances one after the other, on the swatches and on fresh colours.",
    "level_note": "Swatch sets and maps are sampled (well conditioned, near the identity as the property states). The optimiser's tolerance bounds what 'exact' can mean (1e-5).",
    "design_ref": "DESIGN.md section 3, C12",
}
