"""C09 - coordinate transformations are invertible and move voxels exactly.

Monitors: icontract postcondition on ``AffineTransformation.set_parameters``
(state invariant at the place the two rotation matrices are written: orthonormal,
determinant one, mutual inverses), boundary monitors on ``__call__`` / ``inverse``
(round trips, isometry up to scaling, single == batch row, declared types), and on
``TransformationCorrection.__call__`` / ``CoordinateTransformation.__call__``
whose returned arrays are compared bitwise with a loop-built pull-back of the
source array through exactly known maps.
"""

from __future__ import annotations

import itertools

import numpy as np

from vf.oracles import coords as CO

LEVEL = "exploration"
EXHAUSTIVE = {"quick": False, "thorough": False}
RULE = (
    "(points) AffineTransformation in 2-D and 3-D: translations U(-10,10), scalings in (0.1,10), one / three rotation angles "
    "(all non-zero in half of the 3-D cases), random point sets and single points, typed (Coordinate / Voxel-free) I/O; (warps) "
    "TransformationCorrection with exactly known maps - identity, whole-voxel translations incl. negative and larger than the "
    "image, quarter turns about the centre of square images - expressed in physical coordinates, voxels and voxel centres, "
    "2-D and 3-D images, scalar / vector / series payloads, arrays and Images, destination systems of other shape (window) and, "
    "for physical maps, other voxel size (x3, x1/2) and origin; (coordinate transformation) identity and whole-voxel "
    "translations fitted from corner points with and without the isometry option, destination origin displaced by whole "
    "voxels. distinct = (family, dim, map kind, expression mode, shapes, payload); non-trivial = map differs from the identity "
    "or the destination system differs from the source"
)
TOLERANCES = {
    "rotation invariants": "1e-12",
    "point round trips": "1e-9 * (1 + |x| + |t|) * max(s, 1/s)",
    "warped arrays": "bitwise against the loop-built pull-back; destination voxels whose pre-image centre lies within 1e-9 voxel of a source voxel face are skipped",
    "destination metadata": "exact (values of the destination coordinate system)",
}
ASSUMPTIONS = [
    "a transformation correction fills destination voxel v with the source voxel containing the inverse image of the centre of v, and 0 where that lies outside the source (class docstring and code comments)",
    "a quarter turn expressed in voxels is the affine map on voxel indices about the index centre (n-1)/2 (e.g. (i,j) -> (n-1-j, i)); in voxel centres and coordinates it is the rotation about the image centre",
]
FLOORS = {
    "quick": {"parameter_containers_updated_in_place": 500, "contract:rotation_state": 1500, "round_trip": 3000, "warp_exact": 500, "coordinate_transformation": 90, "parameter_update_histories": 1000, "mixed_kind_maps": 500},
    "thorough": {"parameter_containers_updated_in_place": 5000, "contract:rotation_state": 15000, "round_trip": 30000, "warp_exact": 5000, "coordinate_transformation": 900, "parameter_update_histories": 10000, "mixed_kind_maps": 5000},
}
SHARD_TIMEOUT = {"quick": 1500, "thorough": 6000}


def shards(tier, seed):
    k = 16
    q = tier == "quick"
    out = [{"shard": i, "n_pts": (2000 if q else 20000) // k + 1, "n_warp": (600 if q else 6000) // k + 1, "n_ct": (96 if q else 960) // k} for i in range(k)]
    out.append({"shard": k, "n_pts": 0, "n_warp": 0, "n_ct": 0, "repo_tests": ["tests/unit/test_affine.py", "tests/unit/test_coordinate_transformation.py", "tests/unit/test_correction.py"]})
    return out


def pullback(src, dst_shape, src_of):
    """Loop oracle: dst[v] = src[src_of(v)] if inside else 0 ; src_of returns None for 'ambiguous'."""
    dim = len(dst_shape)
    out = np.zeros(tuple(dst_shape) + src.shape[dim:], dtype=src.dtype)
    judged = np.ones(dst_shape, dtype=bool)
    for v in itertools.product(*[range(n) for n in dst_shape]):
        w = src_of(v)
        if w is None:
            judged[v] = False
            continue
        if all(0 <= w[d] < src.shape[d] for d in range(dim)):
            out[v] = src[tuple(w)]
    return out, judged


def run_shard(spec, R):
    import darsia

    import contextlib
    import io

    from vf.attach import attach_post
    from vf.checks import c01
    from vf.gen.images import rng_for

    c01.attach(R)

    def post_set_parameters(self):
        Rm, Ri = np.asarray(self.rotation, float), np.asarray(self.rotation_inv, float)
        d = self.dim
        good = Rm.shape == (d, d) and Ri.shape == (d, d)
        det = {}
        if good:
            det = {"RtR": float(np.max(np.abs(Rm.T @ Rm - np.eye(d)))), "R_Rinv": float(np.max(np.abs(Rm @ Ri - np.eye(d)))), "Rinv_R": float(np.max(np.abs(Ri @ Rm - np.eye(d)))),
                   "det": float(np.linalg.det(Rm))}
            good = det["RtR"] <= 1e-12 and det["R_Rinv"] <= 1e-12 and det["Rinv_R"] <= 1e-12 and abs(det["det"] - 1) <= 1e-12
        R.check(good, "contract:rotation_state", lambda: {"dim": d, **det}, key="C09:rotation_inverse_composed_in_forward_order" if d == 3 else None, group=f"{d}d")
        return True

    attach_post(darsia.AffineTransformation, "set_parameters", post_set_parameters, R)
    if spec.get("repo_tests"):
        from vf.ambient import run_repo_tests

        return run_repo_tests(R, spec["repo_tests"])

    # ================================================================ points
    for n in range(spec["n_pts"]):
        if not R.want(["pts", n]):
            continue
        rng = rng_for(spec["seed"], "C09", spec["shard"], n)
        dim = int(rng.choice([2, 3]))
        t = rng.uniform(-10, 10, size=dim)
        s = float(10 ** rng.uniform(-1, 1))
        if dim == 2:
            ang = rng.uniform(-np.pi, np.pi, size=1)
        else:
            ang = rng.uniform(-np.pi, np.pi, size=3)
            if rng.random() < 0.5:
                ang[int(rng.integers(0, 3))] = 0.0
            if rng.random() < 0.25:
                ang[[int(i) for i in rng.choice(3, size=2, replace=False)]] = 0.0
        A = darsia.AffineTransformation(dim)
        A.set_parameters(translation=t.copy(), scaling=s, rotation=ang.copy())
        X = rng.uniform(-20, 20, size=(int(rng.integers(1, 8)), dim))
        typed = bool(rng.integers(0, 2))
        if typed:
            A.set_dtype(darsia.make_coordinate(X), darsia.make_coordinate(X))
        nz = int(np.sum(ang != 0))
        case = {"dim": dim, "translation": t.tolist(), "scaling": s, "angles": ang.tolist(), "typed": typed}
        key = "C09:rotation_inverse_composed_in_forward_order" if (dim == 3 and nz >= 2) else None
        inp = darsia.make_coordinate(X) if typed else X
        ok, Y = R.guarded("call", lambda: A(inp))
        if not ok:
            continue
        Ya = np.asarray(Y, float)
        tol = 1e-9 * (1 + float(np.max(np.abs(X))) + float(np.max(np.abs(t)))) * max(s, 1 / s)
        ok, back = R.guarded("inverse", lambda: A.inverse(Y))
        if ok:
            R.check(float(np.max(np.abs(np.asarray(back, float) - X))) <= tol, "round_trip", lambda: {**case, "direction": "inverse(A(x))", "max_err": float(np.max(np.abs(np.asarray(back, float) - X)))},
                    key=key, group=f"{dim}d/{nz}")
        ok, fwd = R.guarded("call", lambda: A(A.inverse(inp)))
        if ok:
            R.check(float(np.max(np.abs(np.asarray(fwd, float) - X))) <= tol, "round_trip", lambda: {**case, "direction": "A(inverse(x))", "max_err": float(np.max(np.abs(np.asarray(fwd, float) - X)))},
                    key=key, group=f"{dim}d/{nz}")
        # A(0) = t ; |A(x) - A(y)| = s |x - y|
        z = np.asarray(A(np.zeros((1, dim)) if not typed else darsia.make_coordinate(np.zeros((1, dim)))), float)[0]
        R.check(float(np.max(np.abs(z - t))) <= 1e-12 * (1 + float(np.max(np.abs(t)))), "translation_is_image_of_origin", case)
        if len(X) >= 2:
            d_in = np.linalg.norm(X[0] - X[1])
            d_out = np.linalg.norm(Ya[0] - Ya[1])
            R.check(abs(d_out - s * d_in) <= 1e-10 * (1 + s * d_in), "scales_distances_by_s", {**case, "d_in": float(d_in), "d_out": float(d_out)})
        # single point == row of batch; declared output types
        single = A(inp[0]) if typed else A(X[0])
        # BLAS may sum a single column and a batch in a different order: compare to a few ulps
        R.check(np.shape(single) == (dim,) and bool(np.all(np.abs(np.asarray(single, float) - Ya[0]) <= 1e-13 * (1 + np.abs(Ya[0])) * max(1.0, s))), "single_equals_batch_row", case)
        if typed:
            R.check(isinstance(Y, darsia.CoordinateArray) and isinstance(single, darsia.Coordinate) and isinstance(back, darsia.CoordinateArray), "declared_types", case)
        R.sig(["pts", dim, nz, typed], True, cls=f"points/{dim}d/{nz}angles")
        if n < 1:
            R.sample(case)

        # ---- parameter-update history on this object (forward and inverse have been evaluated above): partial updates
        # through set_parameters; after each, the object must agree with a fresh object given all current parameters
        # at once, and remain a pair of mutual inverses
        cur = {"translation": t.copy(), "scaling": s, "rotation": ang.copy()}
        own_bufs = {}
        for upd in range(int(rng.integers(1, 4))):
            which = [["scaling"], ["translation"], ["rotation"], ["translation", "scaling"], ["scaling"]][int(rng.integers(0, 5))]
            new = {}
            if "scaling" in which:
                new["scaling"] = float(10 ** rng.uniform(-1, 1))
            if "translation" in which:
                new["translation"] = rng.uniform(-10, 10, size=dim)
            if "rotation" in which:
                new["rotation"] = rng.uniform(-np.pi, np.pi, size=1 if dim == 2 else 3)
            # the caller keeps one array per kind of parameter, writes the new values into it and hands the very same
            # object over again (every second history); otherwise fresh copies are passed
            if n % 2 == 1:
                passed = {}
                for k, v in new.items():
                    if hasattr(v, "copy"):
                        if k not in own_bufs:
                            own_bufs[k] = np.array(cur[k], float)
                            R.guarded("set_parameters", lambda: A.set_parameters(**{k: own_bufs[k]}))  # first hand-over, current values
                        own_bufs[k][...] = v
                        passed[k] = own_bufs[k]
                    else:
                        passed[k] = v
                R.count("parameter_containers_updated_in_place")
            else:
                passed = {k: (v.copy() if hasattr(v, "copy") else v) for k, v in new.items()}
            ok, _ = R.guarded("set_parameters", lambda: A.set_parameters(**passed))
            if not ok:
                break
            cur.update({k: (v.copy() if hasattr(v, "copy") else v) for k, v in new.items()})
            F = darsia.AffineTransformation(dim)
            F.set_parameters(translation=np.array(cur["translation"], float), scaling=cur["scaling"], rotation=np.array(cur["rotation"], float))
            if typed:
                F.set_dtype(darsia.make_coordinate(X), darsia.make_coordinate(X))
            hcase = {"dim": dim, "typed": typed, "updated": which, "step": upd, "current": {k: np.asarray(v).tolist() for k, v in cur.items()}}
            s2 = cur["scaling"]
            tol2 = 1e-9 * (1 + float(np.max(np.abs(X))) + float(np.max(np.abs(cur["translation"])))) * max(s2, 1 / s2)
            if upd == 0:
                # a refused update in between (an angle that is no number): the object stays the map it was
                bad_rot = [float(v) for v in np.asarray(cur["rotation"], float)]
                bad_rot[-1] = None
                try:
                    A.set_parameters(rotation=bad_rot)
                except Exception:
                    R.count("refused_update_in_between")
                    # whatever map the object is left with (the property does not say), it is a map with its inverse
                    ok_r, rt_ = R.guarded("call", lambda: (A.inverse(A(inp)), A(A.inverse(inp))))
                    if ok_r:
                        err_r = float(max(np.max(np.abs(np.asarray(rt_[0], float) - X)), np.max(np.abs(np.asarray(rt_[1], float) - X))))
                        R.check(err_r <= 1e-9 * (1 + float(np.max(np.abs(X))) + float(np.max(np.abs(cur["translation"])))) * max(cur["scaling"], 1 / cur["scaling"]), "round_trip",
                                lambda: {**{"dim": dim, "typed": typed}, "direction": "after a refused update of the angles", "max_err": err_r}, group=f"{dim}d/refused_update")
                # all parameters are set anew (a valid update), so that the object is the map described by `cur` again
                A.set_parameters(translation=np.array(cur["translation"], float), scaling=cur["scaling"], rotation=np.array(cur["rotation"], float))
            ok, vals = R.guarded("call", lambda: (A(inp), F(inp), A.inverse(inp), F.inverse(inp), A.inverse(A(inp)), A(A.inverse(inp))))
            if ok and not typed:
                # points in whole units (integer-typed arrays) are points like the same numbers as floats
                Xi = np.round(3 * X).astype(int)
                ok_i, vi = R.guarded("call", lambda: (A(Xi), A(Xi.astype(float)), A.inverse(Xi), A.inverse(Xi.astype(float))))
                if ok_i:
                    R.check(np.allclose(np.asarray(vi[0], float), np.asarray(vi[1], float), rtol=1e-13, atol=1e-13) and np.allclose(np.asarray(vi[2], float), np.asarray(vi[3], float), rtol=1e-13, atol=1e-13),
                            "integer_typed_points_equal_float_points", lambda: {**hcase, "max_forward_diff": float(np.max(np.abs(np.asarray(vi[0], float) - np.asarray(vi[1], float)))),
                                                                            "max_inverse_diff": float(np.max(np.abs(np.asarray(vi[2], float) - np.asarray(vi[3], float))))}, group=f"{dim}d")
            if ok:
                ya, yf, ia, jf, rt1, rt2 = [np.asarray(v, float) for v in vals]
                R.check(np.array_equal(ya, yf) and np.array_equal(ia, jf), "updated_object_equals_fresh_object",
                        lambda: {**hcase, "forward_diff": float(np.max(np.abs(ya - yf))), "inverse_diff": float(np.max(np.abs(ia - jf)))}, group=f"{dim}d/{'+'.join(which)}")
                R.check(float(np.max(np.abs(rt1 - X))) <= tol2 and float(np.max(np.abs(rt2 - X))) <= tol2, "round_trip",
                        lambda: {**hcase, "direction": "after partial update", "max_err": float(max(np.max(np.abs(rt1 - X)), np.max(np.abs(rt2 - X))))},
                        key="C09:rotation_inverse_composed_in_forward_order" if (dim == 3 and int(np.sum(np.asarray(cur["rotation"]) != 0)) >= 2) else None, group=f"{dim}d/update")
                R.count("parameter_update_histories")

        # ---- an object that already carries a scaling other than 1 is fitted as an isometry to exactly isometric data
        if dim == 2 and n % 6 == 0:
            Af = darsia.AffineTransformation(2)
            Af.set_parameters(translation=rng.uniform(-3, 3, size=2), scaling=float(rng.choice([0.5, 2.0, 3.0])), rotation=rng.uniform(-1, 1, size=1))
            th = float(rng.uniform(-1.0, 1.0))
            Rm = np.array([[np.cos(th), -np.sin(th)], [np.sin(th), np.cos(th)]])
            tt = rng.uniform(-5, 5, size=2)
            Ps = rng.uniform(-10, 10, size=(6, 2))
            Pd = Ps @ Rm.T + tt
            with contextlib.redirect_stdout(io.StringIO()):
                okf, _ = R.guarded("fit", lambda: Af.fit(darsia.make_coordinate(Ps), darsia.make_coordinate(Pd), {"isometry": True, "tol": 1e-14, "maxiter": 20000}))
            if okf:
                got_f = np.asarray(Af(darsia.make_coordinate(Ps)), float)
                err_f = float(np.max(np.abs(got_f - Pd)))
                d_in, d_out = np.linalg.norm(Ps[0] - Ps[1]), np.linalg.norm(got_f[0] - got_f[1])
                R.check(err_f <= 1e-4 and abs(d_out - d_in) <= 1e-6 * d_in, "isometry_fit_on_used_object",
                        lambda: {"max_error": err_f, "distance_in": float(d_in), "distance_out": float(d_out), "fitted_scaling": float(Af.scaling), "translation": np.asarray(Af.translation).tolist()})
        # ---- maps whose source and destination points are of different kinds: a single point and the matching row of
        # a batch must agree in value and kind, forward and backward
        if n % 2 == 0:
            mk = {"Coordinate": darsia.make_coordinate, "Voxel": darsia.make_voxel, "VoxelCenter": darsia.make_voxel_center}
            one = {"Coordinate": darsia.Coordinate, "Voxel": darsia.Voxel, "VoxelCenter": darsia.VoxelCenter}
            many = {"Coordinate": darsia.CoordinateArray, "Voxel": darsia.VoxelArray, "VoxelCenter": darsia.VoxelCenterArray}
            tin, tout = [("Coordinate", "Voxel"), ("Voxel", "Coordinate"), ("Coordinate", "VoxelCenter"), ("VoxelCenter", "Coordinate"), ("Voxel", "VoxelCenter")][(n // 2) % 5]
            Bm = darsia.AffineTransformation(dim)
            Bm.set_parameters(translation=t.copy(), scaling=s, rotation=ang.copy())
            Xin, Xout = mk[tin](X), mk[tout](X)
            Bm.set_dtype(Xin, Xout)
            mcase = {"dim": dim, "input_kind": tin, "output_kind": tout, "scaling": s}
            ok, vals = R.guarded("call", lambda: (Bm(Xin), Bm(Xin[0]), Bm.inverse(Xout), Bm.inverse(Xout[0])))
            if ok:
                fb, fs, ib, isg = vals
                good = isinstance(fb, many[tout]) and isinstance(fs, one[tout]) and isinstance(ib, many[tin]) and isinstance(isg, one[tin])
                same = (np.shape(fs) == (dim,) and np.shape(isg) == (dim,)
                        and bool(np.all(np.abs(np.asarray(fs, float) - np.asarray(fb, float)[0]) <= 1e-12 * (1 + np.abs(np.asarray(fb, float)[0]))))
                        and bool(np.all(np.abs(np.asarray(isg, float) - np.asarray(ib, float)[0]) <= 1e-12 * (1 + np.abs(np.asarray(ib, float)[0])))))
                R.check(good, "declared_types", lambda: {**mcase, "got": [type(v).__name__ for v in vals]}, group=f"{tin}->{tout}")
                R.check(same, "single_equals_batch_row", lambda: {**mcase, "single_forward": np.asarray(fs, float).tolist(), "batch_row_forward": np.asarray(fb, float)[0].tolist(),
                                                                  "single_inverse": np.asarray(isg, float).tolist(), "batch_row_inverse": np.asarray(ib, float)[0].tolist()}, group=f"{tin}->{tout}")
                R.count("mixed_kind_maps")

    # ================================================================= warps
    def image_of(arr, dim, payload, dims, origin=None):
        kw = dict(space_dim=dim, dimensions=list(dims), scalar=payload in ("scalar", "series"), series=payload == "series")
        if payload == "series":
            kw["time"] = [0.0, 1.0, 2.0]
        if origin is not None:
            kw["origin"] = list(origin)
        return darsia.Image(arr, **kw)

    for n in range(spec["n_warp"]):
        if not R.want(["warp", n]):
            continue
        rng = rng_for(spec["seed"], "C09", 100 + spec["shard"], n)
        dim = int(rng.choice([2, 2, 3]))
        kind = str(rng.choice(["identity", "translation", "translation", "quarter_turn"])) if dim == 2 else str(rng.choice(["identity", "translation"]))
        mode = str(rng.choice(["coordinate", "voxel", "voxel_center"]))
        # (a quarter turn expressed in voxels is the map on voxel *indices* about the index centre (n - 1) / 2, which
        # maps the index set onto itself)
        payload = str(rng.choice(["scalar", "vector", "series"]))
        as_array = bool(rng.random() < 0.25)
        if kind == "quarter_turn":
            nside = int(rng.integers(2, 8))
            shape = (nside, nside)
        else:
            shape = tuple(int(rng.integers(1, 8 if dim == 2 else 5)) for _ in range(dim))
        h = [float(2.0 ** rng.integers(-2, 3)) for _ in range(dim)]
        if kind == "quarter_turn":
            h = [h[0], h[0]]
        dims = [shape[d] * h[d] for d in range(dim)]
        tr = {"scalar": (), "vector": (2,), "series": (3,)}[payload]
        src = rng.integers(1, 1000, size=shape + tr).astype(np.float64)
        img = image_of(src.copy(), dim, payload, dims)
        cs_src = img.coordinatesystem
        # destination system
        dst_kind = str(rng.choice(["same", "window", "window"])) if kind != "quarter_turn" else "same"
        ratio = 1.0
        if dst_kind == "same":
            dshape, dh, dorigin = shape, h, None
        else:
            dshape = tuple(int(rng.integers(1, 9 if dim == 2 else 5)) for _ in range(dim))
            dh, dorigin = h, None
            if mode == "coordinate" and kind != "translation" and rng.random() < 0.5:
                ratio = float(rng.choice([3.0, 0.5]))
                dh = [x * ratio for x in h]
                shift = [int(rng.integers(-2, 3)) for _ in range(dim)]  # origin displaced by whole source voxels
                o = np.asarray(img.origin, float).copy()
                for c, (m, sgn) in enumerate(CO.TABLE[dim]):
                    o[c] += sgn * shift[m] * h[m]
                dorigin = o.tolist()
        ddims = [dshape[d] * dh[d] for d in range(dim)]
        dimg = image_of(np.zeros(dshape), dim, "scalar", ddims, dorigin)
        cs_dst = dimg.coordinatesystem
        # the map
        A = darsia.AffineTransformation(dim)
        tv = np.zeros(dim, dtype=int)
        if kind == "translation":
            tv = np.array([int(rng.integers(-(shape[d] + 2), shape[d] + 3)) for d in range(dim)])
        k_turn = int(rng.integers(1, 4)) if kind == "quarter_turn" else 0
        Q = np.linalg.matrix_power(np.array([[0, -1], [1, 0]]), k_turn) if kind == "quarter_turn" else None
        if mode == "coordinate":
            tphys = np.zeros(dim)
            for c, (m, sgn) in enumerate(CO.TABLE[dim]):
                tphys[c] = sgn * tv[m] * h[m]
            pts = darsia.make_coordinate(np.zeros((2, dim)))
        elif mode == "voxel":
            tphys = tv.astype(float)
            pts = darsia.make_voxel(np.zeros((2, dim), dtype=int))
        else:
            tphys = tv.astype(float)
            pts = darsia.make_voxel_center(np.zeros((2, dim), dtype=int))
        if kind == "quarter_turn":
            if mode == "coordinate":
                centre = np.asarray(cs_src.coordinate(np.array(shape) / 2.0), float)
            elif mode == "voxel":
                centre = (np.array(shape) - 1) / 2.0
            else:
                centre = np.array(shape) / 2.0
            A.set_parameters(translation=centre - Q @ centre, scaling=1.0, rotation=np.array([k_turn * np.pi / 2]))
        else:
            A.set_parameters(translation=tphys.astype(float), scaling=1.0, rotation=None)
        A.set_dtype(pts, pts)
        case = {"dim": dim, "kind": kind, "mode": mode, "payload": payload, "shape": list(shape), "dst_shape": list(dshape), "voxel_size": h, "dst_voxel_size": dh,
                "translation_voxels": tv.tolist(), "quarter_turns": k_turn, "array_input": as_array, "dst_origin": dorigin}
        ok, corr = R.guarded("construct", lambda: darsia.TransformationCorrection(cs_src, cs_dst, A))
        if not ok:
            continue
        arg = src.copy() if as_array else img
        ok, out = R.guarded("warp", lambda: corr(arg))
        if not ok:
            continue
        oarr = out if as_array else out.img

        # ---- loop oracle with exact arithmetic
        src_meta = (dim, shape, dims, [float(x) for x in np.asarray(img.origin)])
        dst_meta = (dim, dshape, ddims, [float(x) for x in np.asarray(dimg.origin)])

        def src_of(v):
            if mode in ("voxel", "voxel_center"):
                if kind == "quarter_turn" and mode == "voxel":
                    ci = (np.array(shape) - 1) / 2.0
                    w = np.linalg.matrix_power(np.array([[0, 1], [-1, 0]]), k_turn) @ (np.array(v, float) - ci) + ci
                    return [int(round(x)) for x in w]  # exact integers (or half-integers cancel): index map
                if kind == "quarter_turn":
                    c = np.array(v) + 0.5
                    w = np.linalg.matrix_power(np.array([[0, 1], [-1, 0]]), k_turn) @ (c - np.array(shape) / 2.0) + np.array(shape) / 2.0
                    return [int(np.floor(x)) for x in w]
                return [int(v[d] - tv[d]) for d in range(dim)]
            cen = CO.coordinate(*dst_meta, np.array(v) + 0.5)
            if kind == "quarter_turn":
                cc = np.asarray(CO.coordinate(*src_meta, np.array(shape) / 2.0), float)
                pre = np.linalg.matrix_power(np.array([[0, 1], [-1, 0]]), k_turn) @ (cen - cc) + cc
            else:
                pre = cen - tphys
            idx, dist = CO.exact_voxel(*src_meta, pre)
            if min(dist) < 1e-9:
                return None
            return idx

        def series_apply(a):
            return pullback(a, dshape, src_of)

        if payload == "series":
            slices, judged = [], None
            for ti in range(src.shape[dim]):
                e, judged = series_apply(np.take(src, ti, axis=dim))
                slices.append(e)
            exp = np.stack(slices, axis=dim)
        else:
            exp, judged = series_apply(src)
        good = oarr.shape == exp.shape
        nbad = None
        if good:
            same = (oarr == exp)
            if same.ndim > dim:
                same = same.reshape(same.shape[:dim] + (-1,)).all(axis=-1) if payload != "series" else np.moveaxis(same, dim, -1).reshape(same.shape[:dim] + (-1,)).all(axis=-1)
            nbad = int(np.sum(~same & judged))
            good = nbad == 0
            R.skip("ambiguous_centre_on_face", int(np.sum(~judged)))
        R.check(good, "warp_exact", lambda: {**case, "mismatching_voxels": nbad, "out_shape": list(oarr.shape), "exp_shape": list(exp.shape)},
                key="C09:voxel_typed_map_floors_at_exact_integers" if (kind == "quarter_turn" and mode == "voxel") else None, group=f"{kind}/{mode}/{dst_kind}")
        if kind == "identity" and dst_kind == "same":
            R.check(np.array_equal(oarr, src), "identity_returns_input", case)
        if kind == "quarter_turn":
            R.check(np.array_equal(exp, np.rot90(src, k_turn)) or np.array_equal(exp, np.rot90(src, -k_turn)), "oracle_is_a_quarter_turn", case)
        if not as_array:
            R.check(np.array_equal(img.img, src), "input_untouched", case)
        R.sig(["warp", dim, kind, mode, dst_kind, payload, list(shape), list(dshape)], kind != "identity" or dst_kind != "same", cls=f"warp/{kind}/{mode}")
        if n < 1:
            R.sample(case)

    # ================================================= coordinate transformation
    for n in range(spec["n_ct"]):
        if not R.want(["ct", n]):
            continue
        rng = rng_for(spec["seed"], "C09", 200 + spec["shard"], n)
        shape = (int(rng.integers(3, 9)), int(rng.integers(3, 9)))
        h = float(2.0 ** rng.integers(-1, 2))
        dims = [shape[0] * h, shape[1] * h]
        src = rng.integers(1, 1000, size=shape).astype(np.float64)
        img = darsia.Image(src.copy(), space_dim=2, dimensions=list(dims), scalar=True)
        dshape = (int(rng.integers(3, 9)), int(rng.integers(3, 9)))
        shift = [int(rng.integers(-2, 3)), int(rng.integers(-2, 3))]  # destination origin displaced by whole voxels (rows, cols)
        o = np.asarray(img.origin, float).copy()
        o[0] += shift[1] * h
        o[1] -= shift[0] * h
        dimg = darsia.Image(np.zeros(dshape), space_dim=2, dimensions=[dshape[0] * h, dshape[1] * h], scalar=True, origin=o.tolist())
        g = n * 16 + spec["shard"]  # rotate the option lattice over all shards
        isometry = bool(g % 2)
        mode = ["coordinate", "voxel"][(g // 2) % 2]
        tv = np.array([int(rng.integers(-2, 3)), int(rng.integers(-2, 3))]) if g % 3 else np.zeros(2, int)
        # four corner points and their images under the physical translation by tv voxels
        vox = np.array([[0, 0], [shape[0], 0], [shape[0], shape[1]], [0, shape[1]]])
        if mode == "coordinate":
            ps = darsia.make_coordinate(np.asarray(img.coordinatesystem.coordinate(vox), float))
            tphys = np.array([tv[1] * h, -tv[0] * h])
            pd = darsia.make_coordinate(np.asarray(ps, float) + tphys)
        else:
            # voxel points: the same physical points expressed in the voxels of each system
            ps = darsia.make_voxel(vox)
            pd = darsia.make_voxel(vox + tv - np.array(shift))
        case = {"shape": list(shape), "dst_shape": list(dshape), "h": h, "dst_origin_shift_voxels": shift, "translation_voxels": tv.tolist(), "isometry": isometry, "mode": mode}
        import contextlib
        import io

        with contextlib.redirect_stdout(io.StringIO()):
            ok, ct = R.guarded("construct_ct", lambda: darsia.CoordinateTransformation(img.coordinatesystem, dimg.coordinatesystem, ps, pd,
                                                                                      fit_options={"tol": 1e-12, "maxiter": 5000, "isometry": isometry}))
            if not ok:
                continue
            ok, out = R.guarded("call_ct", lambda: ct(img))
        if not ok:
            continue
        # expected: physical translation by tv voxels seen through the displaced destination window
        exp = np.zeros(dshape)
        for v in itertools.product(range(dshape[0]), range(dshape[1])):
            w = (v[0] + shift[0] - tv[0], v[1] + shift[1] - tv[1])
            if 0 <= w[0] < shape[0] and 0 <= w[1] < shape[1]:
                exp[v] = src[w]
        good = out.img.shape == exp.shape and np.array_equal(out.img, exp)
        R.check(good, "coordinate_transformation", lambda: {**case, "mismatching": int(np.sum(out.img != exp)) if out.img.shape == exp.shape else "shape",
                                                            "fitted_translation": np.asarray(ct.affine_correction.transformation.translation).tolist()}, group=f"{mode}/{isometry}")
        R.check(list(out.dimensions) == list(dimg.dimensions) and np.array_equal(np.asarray(out.origin, float), np.asarray(dimg.origin, float))
                and np.allclose(out.voxel_size, dimg.voxel_size, rtol=0, atol=0) and type(out) is type(img), "destination_metadata", case)
        R.check(np.array_equal(img.img, src), "input_untouched", case)
        # a destination system with anisotropic voxels (identity map in physical coordinates): the result is labelled
        # with exactly that system (pixel content is not judged here)
        if n % 2 == 0:
            ah = [h * float(rng.choice([2.0, 0.5, 3.0])), h]
            dimg2 = darsia.Image(np.zeros(dshape), space_dim=2, dimensions=[dshape[0] * ah[0], dshape[1] * ah[1]], scalar=True, origin=o.tolist())
            pc = darsia.make_coordinate(np.asarray(img.coordinatesystem.coordinate(vox), float))
            with contextlib.redirect_stdout(io.StringIO()):
                ok2, ct2 = R.guarded("construct_ct", lambda: darsia.CoordinateTransformation(img.coordinatesystem, dimg2.coordinatesystem, pc, pc, fit_options={"tol": 1e-12, "maxiter": 5000}))
                if ok2:
                    ok2, out2 = R.guarded("call_ct", lambda: ct2(img))
            if ok2:
                R.check(list(out2.dimensions) == list(dimg2.dimensions) and np.array_equal(np.asarray(out2.origin, float), np.asarray(dimg2.origin, float))
                        and np.allclose(out2.voxel_size, dimg2.voxel_size, rtol=0, atol=0) and out2.img.shape == dshape, "destination_metadata",
                        lambda: {**case, "destination_voxel_size": ah, "got_dimensions": list(out2.dimensions), "expected_dimensions": list(dimg2.dimensions)}, group="anisotropic_destination")
                R.count("anisotropic_destination_systems")
        R.sig(["ct", list(shape), list(dshape), shift, tv.tolist(), isometry, mode], True, cls=f"coordinate_transformation/{mode}")
        if n < 1:
            R.sample(case)


MANIFEST = {
    "technique": "icontract state postcondition on AffineTransformation.set_parameters; boundary monitors on __call__/inverse (round trips, isometry, types) and on TransformationCorrection / CoordinateTransformation with a loop-built exact pull-back oracle",
    "level_text": "Thousands of random 2-D/3-D parameter sets pass through the real set_parameters under a postcondition on the stored rotation matrices and through __call__/inverse under round-trip, isometry, single-vs-batch and type clauses; hundreds of exactly known maps (identity, whole-voxel translations beyond the image, quarter turns) expressed in coordinates, voxels and voxel centres are applied by the real TransformationCorrection to scalar, vector and series data onto destination systems of other shape, voxel size and origin, and the returned arrays are compared bitwise with a pull-back built by loops in exact arithmetic; CoordinateTransformation is additionally checked for the destination metadata.",
    "level_note": "Parameters and images are sampled; destination voxels whose pre-image centre sits on a source voxel face (within 1e-9) are not judged.",
    "design_ref": "DESIGN.md section 3, C09",
}
