"""C10 - every correction honours the copy / in-place / array / series contract.

Monitor: one boundary monitor on ``BaseCorrection.__call__`` (inherited by all
corrections, hence ambient for every call any workload makes).  It snapshots the
input before the call and, after it, judges the shared workflow: untouched input
and fresh object of the same kind without overwrite, very same object with
overwrite, pixel data equal to ``correct_array`` recomputed by the monitor on a
raw copy (per time slice for series), metadata equal to the input's plus the
correction's declared updates.  Neutral configurations must reproduce the pixel
values.
"""

from __future__ import annotations

import os
import tempfile

import numpy as np

LEVEL = "exploration"
EXHAUSTIVE = {"quick": False, "thorough": False}
RULE = (
    "corrections: TypeCorrection, RotationCorrection, TranslationCorrection (file-defined matrix, identity, inactive), "
    "CurvatureCorrection (bulge/stretch/crop configs incl. crop with physical width/height, neutral zero config), DriftCorrection "
    "(inactive and active on a translated blob texture), ColorCorrection (synthetic colour-checker photo whose swatches are an "
    "affine distortion of the reference colours; active and inactive), IlluminationCorrection (set up on a synthetic vignetted "
    "photo), AffineCorrection and GeneralizedPerspectiveCorrection (fitted identity / translation) x input kind {array, "
    "ScalarImage, OpticalImage, general vector Image, series of each} where the correction's documented domain admits it x "
    "overwrite {False, True} x random shapes 8..40 and dtypes {uint8, uint16, float32, float64}. distinct = (correction "
    "configuration, input kind, dtype, overwrite); non-trivial = a non-neutral configuration or a series input"
)
TOLERANCES = {"pixel data vs recomputed correct_array": "bitwise (OpenCV's global RNG is re-seeded before every evaluation that runs k-means)",
              "neutral parameters": "bitwise after the documented dtype conversion (float results are compared with the input cast to the result dtype)"}
ASSUMPTIONS = [
    "the reference result is the correction's own correct_array on a raw copy of the input data (the contract is about the shared workflow, not about what each correction computes)",
    "corrections are only applied to payloads in their documented domain (colour / illumination: trichromatic data; drift, curvature, translation, perspective: 2-D)",
]
FLOORS = {
    "quick": {"input_untouched_while_result_is_modified": 250, "contract:call_observed": 700, "input_untouched_without_overwrite": 300, "same_object_with_overwrite": 300, "construction_equals_overwrite": 1000, "pixels_equal_correct_array": 650, "metadata_is_input_plus_updates": 550,
              "series_equals_per_slice": 150, "neutral_keeps_pixels": 100},
    "thorough": {"input_untouched_while_result_is_modified": 2500, "construction_equals_overwrite": 10000, "contract:call_observed": 7000, "input_untouched_without_overwrite": 3000, "same_object_with_overwrite": 3000, "pixels_equal_correct_array": 6500, "metadata_is_input_plus_updates": 5500,
                 "series_equals_per_slice": 1500, "neutral_keeps_pixels": 1000},
}
SHARD_TIMEOUT = {"quick": 1500, "thorough": 7200}


def shards(tier, seed):
    k = 16
    n = 3 if tier == "quick" else 30
    out = [{"shard": i, "rounds": n} for i in range(k)]
    out.append({"shard": k, "rounds": 0, "repo_tests": ["tests/unit/test_correction.py", "tests/unit/test_affine.py", "tests/unit/test_coordinate_transformation.py",
                                                       "tests/unit/test_generalizedperspective.py", "tests/unit/test_image.py"]})
    return out


def checker_photo(rng, darsia, shape, dtype, linear_only=False, ref=None, amplitude=0.08, full_size=False):
    """Photo with an embedded 4x6 colour checker whose colours are an affine (or linear) distortion
    of random reference colours.  Returns (array, roi corner voxels, reference colours)."""
    import cv2

    if ref is None:
        ref = rng.uniform(0.25, 0.75, size=(4, 6, 3)).astype(np.float32)
    for _ in range(100):
        A = np.eye(3) + rng.uniform(-amplitude, amplitude, size=(3, 3))
        b = np.zeros(3) if linear_only else rng.uniform(-amplitude / 2, amplitude / 2, size=3)
        # the photo shows the colours that the exact inverse map sends back to the reference
        shown = (np.asarray(ref, float) - b) @ np.linalg.inv(A)
        if shown.min() > 0.02 and shown.max() < 0.98:  # no clipping: the relation stays exact
            break
    shown = np.clip(shown, 0.0, 1.0)
    chk = np.full((326, 500, 3), 0.1, dtype=np.float64)
    rows, cols = [12, 93, 175, 255], [12, 95, 177, 260, 344, 427]
    for r in range(4):
        for c in range(6):
            chk[rows[r] - 8 : rows[r] + 58, cols[c] - 8 : cols[c] + 58] = shown[r, c]
    H, W = shape
    ch, cw = max(40, H // 2), max(60, W // 2)
    if full_size:
        # the checker is shown at the size of the extraction template: every sampled swatch window lies well inside a
        # uniformly coloured square, so the extracted swatches are the shown colours up to float32 rounding
        H, W = max(H, 340), max(W, 520)
        ch, cw = 326, 500
        small = chk
    else:
        small = cv2.resize(chk, (cw, ch), interpolation=cv2.INTER_AREA)
    photo = rng.uniform(0.2, 0.8, size=(H, W, 3))
    r0, c0 = int(rng.integers(0, H - ch + 1)), int(rng.integers(0, W - cw + 1))
    photo[r0 : r0 + ch, c0 : c0 + cw] = small
    roi = [[r0, c0], [r0 + ch, c0], [r0 + ch, c0 + cw], [r0, c0 + cw]]  # anti-clockwise from the first (brown) swatch
    if np.issubdtype(np.dtype(dtype), np.integer):
        arr = (photo * np.iinfo(dtype).max).round().astype(dtype)
    else:
        arr = photo.astype(dtype)
    return arr, roi, ref


def shutil_rmtree(path):
    import shutil

    shutil.rmtree(path, ignore_errors=True)


def run_shard(spec, R):
    import cv2
    import skimage

    import darsia

    from vf.attach import wrap
    from vf.gen.images import rng_for
    from vf.snapshots import diff, snap

    tmpdir = tempfile.mkdtemp(prefix="vf-c10-", dir=os.environ.get("VERIF_RUN_DIR", None))
    current = {"label": "?", "neutral": False, "kmeans": False}

    def recompute(corr, raw, reseed=True):
        # OpenCV's k-means draws from cv2's global RNG: it is seeded once before the library call and once
        # before the recomputation (not between the time slices of a series, as the library does not either)
        if current["kmeans"] and reseed:
            cv2.setRNGSeed(0)
        return corr.correct_array(raw)

    # ------------------------------------------------------------ the monitor
    def before(a, k):
        self, image = a[0], a[1]
        overwrite = k.get("overwrite", a[2] if len(a) > 2 else False)
        tok = {"overwrite": overwrite, "snap": snap(image), "is_image": isinstance(image, darsia.Image)}
        if tok["is_image"]:
            tok["raw"] = image.img.copy()
            tok["meta_update"] = None
        else:
            tok["raw"] = image.copy()
        if current["kmeans"]:
            cv2.setRNGSeed(0)
        return tok

    def after(tok, a, k, res, exc):
        self, image = a[0], a[1]
        R.count("contract:call_observed")
        label = current["label"]
        case = {"correction": label, "input": type(image).__name__, "overwrite": tok["overwrite"], "dtype": str(tok["raw"].dtype), "shape": list(tok["raw"].shape)}
        if exc is not None:
            return
        grp = f"{label}/{type(image).__name__}"
        raw = tok["raw"]
        if not tok["is_image"]:
            if not tok["overwrite"]:
                R.check(snap(image) == tok["snap"], "input_untouched_without_overwrite", lambda: {**case, "difference": diff(tok["snap"], snap(image))}, group=grp)
            exp = recompute(self, raw.copy())
            R.check(isinstance(res, np.ndarray) and res.shape == exp.shape and res.dtype == exp.dtype and np.array_equal(res, exp, equal_nan=True), "pixels_equal_correct_array", case, group=grp)
            return
        series = bool(getattr(image, "series", False)) if tok["overwrite"] else None
        # expected pixels: correct_array on the raw data, per time slice for series
        src_series = tok["snap"][5]  # metadata tuple inside the snapshot
        was_series = dict(src_series).get("series") == ("bool", "True")
        sd = image.space_dim if not tok["overwrite"] else res.space_dim
        if was_series and not hasattr(self, "correct_array_series"):
            scalar = dict(src_series).get("scalar") == ("bool", "True")
            slices = []
            for ti in range(raw.shape[sd]):
                slices.append(recompute(self, (raw[..., ti] if scalar else raw[..., ti, :]).copy(), reseed=(ti == 0)))
            exp = np.stack(slices, axis=sd)
        else:
            exp = recompute(self, raw.copy())
        good = res.img.shape == exp.shape and res.img.dtype == exp.dtype and np.array_equal(res.img, exp, equal_nan=True)
        R.check(good, "pixels_equal_correct_array", lambda: {**case, "got": [str(res.img.dtype), list(res.img.shape)], "expected": [str(exp.dtype), list(exp.shape)]}, group=grp)
        if was_series:
            R.check(good, "series_equals_per_slice", case, group=grp)
        if tok["overwrite"]:
            R.check(res is image, "same_object_with_overwrite", case, group=grp)
        else:
            R.check(snap(image) == tok["snap"] and np.array_equal(image.img, raw), "input_untouched_without_overwrite",
                    lambda: {**case, "difference": diff(tok["snap"], snap(image))}, group=grp)
            R.check(res is not image and type(res) is type(image) and not np.shares_memory(res.img, image.img), "new_object_of_same_kind", {**case, "result_type": type(res).__name__}, group=grp)
        # metadata = input's, updated by the correction's declared updates
        upd = self.correct_metadata(dict(tok_meta(tok, image)))
        exp_meta = dict(tok_meta(tok, image))
        exp_meta.update(upd)
        got_meta = res.metadata()
        bad = [kk for kk in exp_meta if snap(got_meta.get(kk)) != snap(exp_meta[kk]) and not (kk in ("dimensions", "origin") and np.allclose(np.asarray(got_meta.get(kk), float), np.asarray(exp_meta[kk], float), rtol=0, atol=0))]
        R.check(not bad, "metadata_is_input_plus_updates", lambda: {**case, "keys": bad, "got": {kk: str(got_meta.get(kk)) for kk in bad}, "expected": {kk: str(exp_meta[kk]) for kk in bad}}, group=grp)
        if current["neutral"]:
            ref = raw.astype(res.img.dtype) if res.img.dtype != raw.dtype and current.get("neutral_cast", True) else raw
            if current.get("neutral_as_float"):
                ref = skimage.img_as_float(raw).astype(np.float32)
            R.check(res.img.shape == ref.shape and np.array_equal(res.img, ref), "neutral_keeps_pixels", case, group=grp)

    meta_store = {}

    def tok_meta(tok, image):
        return meta_store["meta"]

    orig_before = before

    def before2(a, k):
        image = a[1]
        if isinstance(image, darsia.Image):
            import copy

            meta_store["meta"] = copy.deepcopy(image.metadata())
        return orig_before(a, k)

    wrap(darsia.BaseCorrection, "__call__", before2, after)

    # --------------------------------------------------------------- inputs
    def inputs(rng, shape, dtype, kinds):
        out = []

        def data(tr):
            full = shape + tr
            if np.issubdtype(np.dtype(dtype), np.integer):
                return rng.integers(0, np.iinfo(dtype).max, size=full, endpoint=True).astype(dtype)
            return rng.random(full).astype(dtype)

        dims = [shape[0] * 0.01, shape[1] * 0.01]
        if "array2" in kinds:
            out.append(("array2", data(())))
        if "array3" in kinds:
            out.append(("array3", data((3,))))
        if "scalar" in kinds:
            out.append(("scalar", darsia.ScalarImage(data(()), dimensions=list(dims), name="s")))
        if "optical" in kinds:
            out.append(("optical", darsia.OpticalImage(data((3,)), dimensions=list(dims), color_space="RGB", name="o")))
        if "vector" in kinds:
            out.append(("vector", darsia.Image(data((3,)), space_dim=2, dimensions=list(dims), scalar=False)))
        if "scalar_series" in kinds:
            out.append(("scalar_series", darsia.ScalarImage(data((3,)), dimensions=list(dims), series=True, time=[0.0, 1.0, 2.0])))
        if "optical_series" in kinds:
            # (every second time: a series that holds a single time step so far)
            if rng.random() < 0.5:
                out.append(("optical_series", darsia.OpticalImage(data((1, 3)), dimensions=list(dims), color_space="RGB", series=True, time=[0.0])))
                return out
            out.append(("optical_series", darsia.OpticalImage(data((2, 3)), dimensions=list(dims), color_space="RGB", series=True, time=[0.0, 1.5])))
        return out

    ALL = ["array2", "array3", "scalar", "optical", "vector", "scalar_series", "optical_series"]
    COLOUR = ["array3", "optical", "optical_series"]

    rnd_counter = [0]

    def drive(label, corr, items, neutral=False, kmeans=False, neutral_as_float=False):
        for kind, obj in items:
            for overwrite in (False, True):
                if not R.want([label, kind, overwrite, str(getattr(obj, "dtype", ""))]):
                    continue
                import copy

                arg = copy.deepcopy(obj)
                current.update({"label": label, "neutral": neutral, "kmeans": kmeans, "neutral_as_float": neutral_as_float})
                key = None
                if label.startswith("rotation") and kind in ("array3", "optical", "vector", "optical_series"):
                    key = "C10:rotation_correction_vector_payload"
                if label == "translation_inactive":
                    key = "C10:inactive_translation_correction_raises"
                if label == "drift_active":
                    # feature matching may legitimately refuse a synthetic texture ("ROIs cannot be aligned by
                    # translation"): outside the correction's domain, counted as unsupported
                    try:
                        ok, res = True, corr(arg, overwrite=overwrite)
                    except ValueError as e:
                        R.skip(f"unsupported:drift_active:{str(e)[:40]}")
                        continue
                else:
                    ok, res = R.guarded(f"apply:{label}", lambda: corr(arg, overwrite=overwrite), key=lambda e, w: key)
                if ok and isinstance(obj, np.ndarray) and neutral:
                    ref = skimage.img_as_float(obj).astype(np.float32) if neutral_as_float else obj
                    R.check(np.shape(res) == ref.shape and np.array_equal(np.asarray(res).astype(ref.dtype), ref), "neutral_keeps_pixels", {"correction": label, "input": kind, "overwrite": overwrite})
                R.sig([label, kind, str(getattr(obj, "dtype", "")), overwrite], nontrivial=(not neutral) or "series" in kind, cls=label)
                # the input stays untouched also while the caller keeps working with the returned image: everything
                # mutable the result carries (lists / arrays of its metadata, a series that grows) is changed in place
                if ok and (not overwrite) and isinstance(obj, darsia.Image) and res is not arg:
                    in_before = snap(arg)
                    touched = []
                    for nm in ("dimensions", "origin", "date", "time"):
                        val = getattr(res, nm, None)
                        if isinstance(val, list) and val:
                            val[0] = val[0] * 2.0 if isinstance(val[0], float) else val[0]
                            val.append(val[-1])
                            touched.append(nm)
                        elif isinstance(val, np.ndarray) and val.size:
                            val += 1.0
                            touched.append(nm)
                    if res.series:
                        try:
                            frame = res.time_slice(0)
                            res.append(frame, offset=1.0)
                            touched.append("append")
                        except Exception:
                            pass
                    R.check(snap(arg) == in_before, "input_untouched_while_result_is_modified", lambda: {"correction": label, "input": kind, "modified_on_result": touched, "difference": diff(in_before, snap(arg))}, group=label)
                    res = None
                # the third way of applying a correction to an image: handing it over at construction
                # (`transformations=[...]`); the image built that way equals the image corrected in place
                if ok and overwrite and isinstance(obj, darsia.Image) and label != "drift_active":
                    if kmeans:
                        cv2.setRNGSeed(0)
                    n_before = R.counters["contract:call_observed"]
                    # unconfigured corrections of a workflow appear as None placeholders in the list
                    # ... and the sequence may be a tuple as well as a list
                    tlist = [[corr], [None, corr], (corr,), [corr, None], [None, None, corr], (None, corr), [None, corr, None]][(rnd_counter[0]) % 7]
                    rnd_counter[0] += 1
                    okc, built = R.guarded(f"construct_with:{label}", lambda: type(obj)(obj.img.copy(), transformations=type(tlist)(tlist), **copy.deepcopy(obj.metadata())), key=lambda e, w: key)
                    if okc:
                        same = (built.img.dtype == res.img.dtype and built.img.shape == res.img.shape and np.array_equal(built.img, res.img, equal_nan=True)
                                and snap(built.metadata()) == snap(res.metadata()))
                        R.check(same, "construction_equals_overwrite",
                                lambda: {"correction": label, "input": kind, "built": [str(built.img.dtype), list(built.img.shape)], "in_place": [str(res.img.dtype), list(res.img.shape)],
                                         "transformations": [type(tlist).__name__] + ["None" if t is None else "correction" for t in tlist],
                                         "correction_called": R.counters["contract:call_observed"] > n_before}, group=label)

    import contextlib
    import io

    if spec.get("repo_tests"):
        # the repository's tests (real photographs, fitted corrections) under the same monitor
        from vf.ambient import run_repo_tests

        current.update({"label": "repo-tests", "neutral": False, "kmeans": True, "neutral_as_float": False})
        run_repo_tests(R, spec["repo_tests"])
        shutil_rmtree(tmpdir)
        return

    for rnd in range(spec["rounds"]):
        rng = rng_for(spec["seed"], "C10", spec["shard"], rnd)
        shape = (int(rng.integers(8, 41)), int(rng.integers(8, 41)))
        dtype = [np.uint8, np.uint16, np.float32, np.float64][int(rng.integers(0, 4))]
        fdtype = [np.float32, np.float64][int(rng.integers(0, 2))]
        with contextlib.redirect_stdout(io.StringIO()):
            # ---- type correction
            tgt = [np.float32, np.float64, np.uint8, np.uint16, float][int(rng.integers(0, 5))]
            drive(f"type->{getattr(tgt, '__name__', tgt)}", darsia.TypeCorrection(tgt), inputs(rng, shape, dtype, ALL))
            # ---- rotation
            ang = float(rng.uniform(-0.6, 0.6))
            anchor = [int(rng.integers(0, shape[0])), int(rng.integers(0, shape[1]))]
            drive("rotation", darsia.RotationCorrection(anchor=anchor, rotations=[ang]), inputs(rng, shape, fdtype, ALL))
            rot0 = darsia.RotationCorrection(anchor=anchor, rotations=[0.0])
            drive("rotation_neutral", rot0, inputs(rng, shape, fdtype, ALL), neutral=True)
            # the same (used) object then serves images of the transposed shape (same number of voxels, other extents)
            if shape[0] != shape[1] and min(anchor) < min(shape):
                drive("rotation_neutral_reused_on_transposed_shape", rot0, inputs(rng, shape[::-1], fdtype, ["array2", "scalar", "scalar_series"]), neutral=True)
            # ---- translation (matrix read from file)
            tpath = os.path.join(tmpdir, f"t{rnd}.npy")
            np.save(tpath, np.array([[1, 0, int(rng.integers(-4, 5))], [0, 1, int(rng.integers(-4, 5))]], dtype=np.float32))
            drive("translation", darsia.TranslationCorrection(tpath), inputs(rng, shape, [np.uint8, np.float32][rnd % 2], ["array2", "array3", "scalar", "optical", "scalar_series", "optical_series"]))
            ipath = os.path.join(tmpdir, f"i{rnd}.npy")
            np.save(ipath, np.array([[1, 0, 0], [0, 1, 0]], dtype=np.float32))
            drive("translation_neutral", darsia.TranslationCorrection(ipath), inputs(rng, shape, [np.uint8, np.float32][rnd % 2], ["array2", "scalar", "optical", "optical_series"]), neutral=True)
            drive("translation_inactive", darsia.TranslationCorrection(), inputs(rng, shape, np.float32, ["array2", "scalar", "optical"]), neutral=True)
            # ---- curvature
            cfg = {"bulge": {"horizontal_bulge": float(rng.uniform(-2e-5, 2e-5)), "vertical_bulge": float(rng.uniform(-2e-5, 2e-5))},
                   "stretch": {"horizontal_stretch": float(rng.uniform(-2e-5, 2e-5)), "vertical_stretch": 0.0, "horizontal_center_offset": 0, "vertical_center_offset": 0}}
            drive("curvature", darsia.CurvatureCorrection(config=cfg), inputs(rng, shape, dtype, ["array2", "array3", "scalar", "optical", "scalar_series", "optical_series"]))
            cfgc = {"crop": {"pts_src": [[1, 1], [1, shape[0] - 2], [shape[1] - 2, shape[0] - 2], [shape[1] - 2, 1]], "width": float(shape[1] * 0.01 * rng.uniform(0.8, 1.25)), "height": float(shape[0] * 0.01)}}  # aspect ratio near the image's: no degenerate (1-pixel) crops
            drive("curvature_crop", darsia.CurvatureCorrection(config=cfgc), inputs(rng, shape, fdtype, ["scalar", "optical", "optical_series"]))
            cfg0 = {"bulge": {"horizontal_bulge": 0.0, "vertical_bulge": 0.0}, "stretch": {"horizontal_stretch": 0.0, "vertical_stretch": 0.0, "horizontal_center_offset": 0, "vertical_center_offset": 0}}
            drive("curvature_neutral", darsia.CurvatureCorrection(config=cfg0), inputs(rng, shape, dtype, ["array2", "scalar", "optical", "scalar_series", "optical_series"]), neutral=True)
            # ---- drift
            base = (rng.random(shape + (3,)) * 255).astype(np.uint8)
            drive("drift_inactive", darsia.DriftCorrection(base=base, config={"active": False}), inputs(rng, shape, np.uint8, ["array3", "optical", "optical_series"]), neutral=True)
            big = (96, 128)
            tex = np.zeros(big + (3,), np.uint8)
            for _ in range(60):
                cv2.circle(tex, (int(rng.integers(5, big[1] - 5)), int(rng.integers(5, big[0] - 5))), int(rng.integers(2, 7)), tuple(int(x) for x in rng.integers(40, 255, size=3)), -1)
            moved = np.roll(tex, (2, 3), axis=(0, 1))
            dims = [big[0] * 0.01, big[1] * 0.01]
            drive("drift_active", darsia.DriftCorrection(base=tex.copy(), config={}), [("array3", moved.copy()), ("optical", darsia.OpticalImage(moved.copy(), dimensions=dims, color_space="RGB")),
                                                                                      ("optical_series", darsia.OpticalImage(np.stack([moved, tex], axis=2), dimensions=dims, color_space="RGB", series=True, time=[0.0, 1.0]))])
            # ---- colour
            pshape = (int(rng.integers(90, 140)), int(rng.integers(130, 200)))
            arr, roi, ref = checker_photo(rng, darsia, pshape, dtype)
            cc = darsia.ColorCorrection(base=darsia.CustomColorChecker(reference_colors=ref), config={"roi": roi, "whitebalancing": bool(rnd % 2), "colorbalancing": ["affine", "linear"][rnd % 2]})
            dimsp = [pshape[0] * 0.01, pshape[1] * 0.01]
            photo_items = [("array3", arr.copy()), ("optical", darsia.OpticalImage(arr.copy(), dimensions=dimsp, color_space="RGB")),
                           ("optical_series", darsia.OpticalImage(np.stack([arr, arr[::1]], axis=2), dimensions=dimsp, color_space="RGB", series=True, time=[0.0, 1.0]))]
            drive("colour", cc, photo_items, kmeans=True)
            cci = darsia.ColorCorrection(base=darsia.CustomColorChecker(reference_colors=ref), config={"roi": roi, "active": False})
            drive("colour_inactive", cci, photo_items[:2], neutral=True, neutral_as_float=True)
            # ---- illumination
            H, W = pshape
            yy, xx = np.mgrid[0:H, 0:W]
            vign = 1.0 - 0.4 * (((yy - H / 2) / H) ** 2 + ((xx - W / 2) / W) ** 2)
            flat = np.clip(0.6 * vign[..., None] * np.ones(3) + rng.normal(0, 0.003, size=(H, W, 3)), 0, 1).astype(np.float32)
            samples = [(slice(r, r + 10), slice(c, c + 10)) for r in (5, H // 2 - 5, H - 16) for c in (5, W // 2 - 5, W - 16)]
            ill = darsia.IlluminationCorrection()
            ok, _ = R.guarded("setup:illumination", lambda: ill.setup(darsia.OpticalImage(flat.copy(), dimensions=dimsp, color_space="RGB"), samples, colorspace="rgb-scalar", interpolation="quartic"))
            if ok:
                fphoto = rng.random(pshape + (3,)).astype(np.float32)
                drive("illumination", ill, [("array3", fphoto.copy()), ("optical", darsia.OpticalImage(fphoto.copy(), dimensions=dimsp, color_space="RGB")),
                                            ("optical_series", darsia.OpticalImage(np.stack([fphoto, flat], axis=2), dimensions=dimsp, color_space="RGB", series=True, time=[0.0, 1.0]))])
                # the used object is configured anew - with unit scaling, i.e. neutral parameters - and applied again
                ill.local_scaling = [darsia.ScalarImage(np.ones(pshape), dimensions=dimsp) for _ in ill.local_scaling]
                drive("illumination_reconfigured_to_unit_scaling", ill, [("array3", fphoto.copy()), ("optical", darsia.OpticalImage(fphoto.copy(), dimensions=dimsp, color_space="RGB"))], neutral=True)
            # ---- transformation corrections (fitted)
            simg = darsia.ScalarImage(rng.random(shape), dimensions=[shape[0] * 0.01, shape[1] * 0.01])
            cs = simg.coordinatesystem
            corners = darsia.make_voxel([[0, 0], [shape[0], 0], [shape[0], shape[1]], [0, shape[1]]])
            tv = np.array([int(rng.integers(-3, 4)), int(rng.integers(-3, 4))])
            ok, aff = R.guarded("setup:affine", lambda: darsia.AffineCorrection(cs, cs, corners, darsia.make_voxel(np.asarray(corners) + tv), fit_options={"tol": 1e-10, "maxiter": 3000}))
            if ok:
                drive("affine_translation", aff, inputs(rng, shape, fdtype, ["array2", "array3", "scalar", "optical", "scalar_series", "optical_series"]))
            ok, affn = R.guarded("setup:affine", lambda: darsia.AffineCorrection(cs, cs, corners, corners, fit_options={"tol": 1e-10, "maxiter": 3000}))
            if ok:
                drive("affine_neutral", affn, inputs(rng, shape, fdtype, ["array2", "scalar", "optical", "optical_series"]), neutral=True)
            # the same neutral fits with control points given in physical coordinates, on voxel sizes that are not
            # exactly representable (0.1, 0.3, ...)
            hh = [0.1, 0.3, 0.07][rnd % 3]
            cimg = darsia.ScalarImage(rng.random(shape), dimensions=[shape[0] * hh, shape[1] * hh])
            ccs = cimg.coordinatesystem
            cpts = darsia.make_coordinate(np.asarray(ccs.coordinate(corners), float))
            ok, affc = R.guarded("setup:affine", lambda: darsia.AffineCorrection(ccs, ccs, cpts, cpts, fit_options={"tol": 1e-12, "maxiter": 3000}))
            if ok:
                drive("affine_neutral_coordinates", affc, inputs(rng, shape, fdtype, ["array2", "scalar", "optical_series"]), neutral=True)
            ok, gpc = R.guarded("setup:perspective", lambda: darsia.GeneralizedPerspectiveCorrection(ccs, ccs, cpts, cpts, fit_options={}))
            if ok:
                drive("perspective_neutral_coordinates", gpc, inputs(rng, shape, fdtype, ["array2", "scalar"]), neutral=True)
            # the physically neutral map with source points given as voxel centres and destination points as physical
            # coordinates (two expressions of the same points)
            cen = darsia.make_voxel_center(np.asarray(corners, float) * 0.5 + 0.25 * np.array([shape[0], shape[1]]))
            cen_c = cen.to_coordinate(ccs)
            ok, affm = R.guarded("setup:affine", lambda: darsia.AffineCorrection(ccs, ccs, cen, cen_c, fit_options={"tol": 1e-12, "maxiter": 5000}))
            if ok:
                resid = float(np.max(np.abs(np.asarray(affm.transformation(cen), float) - np.asarray(cen_c, float))))
                if resid <= 1e-9 * hh * max(shape):
                    drive("affine_neutral_mixed_kinds", affm, inputs(rng, shape, fdtype, ["array2", "scalar"]), neutral=True)
                else:
                    R.skip("affine_neutral_mixed_kinds:fit_not_converged")
            # an inactive colour correction with the clip option set is still neutral, also for data outside [0, 1]
            wide = (rng.random(shape + (3,)) * 2.0 - 0.5).astype(np.float32)
            ccl = darsia.ColorCorrection(base=darsia.CustomColorChecker(reference_colors=ref), config={"roi": roi, "active": False, "clip": True})
            drive("colour_inactive_clip", ccl, [("array3", wide.copy()), ("optical", darsia.OpticalImage(wide.copy(), dimensions=[1.0, 1.0], color_space="RGB")),
                                                ("optical_series", darsia.OpticalImage(np.stack([wide, wide[::-1]], axis=2), dimensions=[1.0, 1.0], color_space="RGB", series=True, time=[0.0, 1.0]))],
                  neutral=True, neutral_as_float=True)
            ok, gp = R.guarded("setup:perspective", lambda: darsia.GeneralizedPerspectiveCorrection(cs, cs, corners, corners, fit_options={}))
            if ok:
                drive("perspective_neutral", gp, inputs(rng, shape, fdtype, ["array2", "scalar", "optical", "optical_series"]), neutral=True)
        if rnd == 0:
            R.sample({"round": rnd, "shape": list(shape), "dtype": np.dtype(dtype).name, "corrections": ["type", "rotation", "translation", "curvature", "drift", "colour", "illumination", "affine", "perspective"]})
    import shutil

    shutil.rmtree(tmpdir, ignore_errors=True)


MANIFEST = {
    "technique": "boundary monitor on the inherited BaseCorrection.__call__ (ambient for every correction) with input snapshots; reference = the correction's own correct_array recomputed on a raw copy (per slice for series); neutral-configuration oracle",
    "level_text": "Every concrete correction that can be built without user interaction or image files is constructed (some through synthetic colour-checker / vignetted / textured photos) and applied to arrays, scalar, optical and vector images and their series with overwrite off and on; every call passes through one monitor on the shared workflow that checks untouched input / same object, result kind, pixel data against correct_array recomputed on a raw copy (restacked per time slice), metadata against the input's plus the declared updates, and value preservation for neutral configurations.",
    "level_note": "Shapes, dtypes and parameters are sampled; the contract is judged relative to each correction's own correct_array (what a correction computes is the business of C09/C12); OpenCV's global RNG is re-seeded around evaluations that use k-means.",
    "design_ref": "DESIGN.md section 3, C10",
}
