"""C07 - grid numbering and connectivity form a consistent bijection.

Monitor: icontract postcondition on ``darsia.Grid.__init__`` (ambient: every
grid constructed by any workload is judged, also those built by
``generate_grid``), judged against the explicit loop model in
vf.oracles.gridmodel.
"""

from __future__ import annotations

import numpy as np

from vf.oracles.gridmodel import GridModel, all_shapes

LEVEL = "exploration"
EXHAUSTIVE = {"quick": True, "thorough": True}
RULE = (
    "all 186 shapes (extents 1..12 in 1-D, 1..7 in 2-D, 1..5 in 3-D) with scalar and list voxel sizes, "
    "plus grids derived from random images through generate_grid and call histories of generate_grid over images that "
    "share dimensionality, voxel count and physical dimensions but not shape; case = (source, shape, voxel-size kind); "
    "non-trivial = the grid has at least one face; distinct by (shape, voxel-size kind, source)"
)
TOLERANCES = {"all index tables": "exact (integers)", "face_vol / voxel_size": "1e-14 relative"}
ASSUMPTIONS = [
    "cells are numbered in Fortran order of the matrix multi-index; faces axis by axis, Fortran order of the lower neighbour",
    "'interior' faces of an axis are those not touching the outer boundary in any tangential direction (grid.py comments)",
]
FLOORS = {
    "quick": {"grid_rejudged_after_use": 180, "grid_constructed": 186 * 2 + 100, "connectivity_bijection": 400},
    "thorough": {"grid_rejudged_after_use": 180, "grid_constructed": 186 * 2 + 1000, "connectivity_bijection": 1400},
}


def shards(tier, seed):
    n_img = 200 if tier == "quick" else 2000
    k = 4 if tier == "quick" else 16
    out = [{"shard": i, "nshards": k, "n_img": n_img} for i in range(k)]
    out.append({"shard": k, "repo_tests": ["tests/unit/test_grid.py", "tests/unit/test_fv.py", "tests/unit/test_variational_wasserstein_distance.py", "tests/unit/test_emd.py"]})
    return out


def judge_grid(R, grid, source="direct"):
    """Oracle for one constructed darsia.Grid."""
    shape = tuple(int(s) for s in grid.shape)
    case = {"shape": list(shape), "source": source}
    R.count("grid_constructed")
    h = np.asarray(grid.voxel_size, dtype=float)
    # the description of the grid is coherent in itself: one extent and one voxel size per dimension
    if not R.check(len(shape) == int(grid.dim) == h.size and 1 <= len(shape) <= 3 and all(s_ >= 1 for s_ in shape), "grid_description_coherent",
                   {**case, "dim": int(grid.dim), "voxel_sizes": int(h.size)}):
        return
    M = GridModel(shape, h)
    dim = len(shape)
    ok = True
    ok &= R.check(int(grid.num_cells) == M.num_cells and grid.dim == dim, "cell_count", case)
    # cell numbering: Fortran order of the multi-index
    ci = np.asarray(grid.cell_index)
    ok &= R.check(
        ci.shape == shape and all(int(ci[m]) == i for i, m in enumerate(M.cells)), "cell_numbering_fortran", case
    )
    # face counts per axis follow from the shape
    per_axis = [len(f) for f in M.faces]
    got_axis = [int(n) for n in grid.num_faces_per_axis]
    ok &= R.check(
        got_axis == per_axis and int(grid.num_faces) == M.num_faces,
        "face_counts_from_shape",
        lambda: {**case, "got": got_axis, "expected": per_axis},
    )
    if not ok:
        return False
    # each face numbered exactly once: consecutive disjoint ranges
    allf = np.concatenate([np.asarray(f, dtype=int).ravel() for f in grid.faces]) if dim else np.array([], int)
    ok &= R.check(
        len(allf) == M.num_faces and np.array_equal(np.sort(allf), np.arange(M.num_faces)) and all(
            np.array_equal(np.asarray(grid.faces[d], dtype=int), np.asarray(M.faces[d], dtype=int)) for d in range(dim)
        ),
        "faces_numbered_once",
        case,
    )
    conn = np.asarray(grid.connectivity)
    good = conn.shape == (M.num_faces, 2)
    bad_face = None
    if good:
        for f in range(M.num_faces):
            if (int(conn[f, 0]), int(conn[f, 1])) != M.connectivity[f]:
                good = False
                bad_face = {"face": f, "got": conn[f].tolist(), "expected": list(M.connectivity[f])}
                break
    ok &= R.check(good, "connectivity_neighbours_lower_first", lambda: {**case, **(bad_face or {})})
    # independent of the model's numbering: the two cells are neighbours along the face's axis
    good = True
    for d in range(dim):
        for f in np.asarray(grid.faces[d], dtype=int):
            lo, hi = int(conn[f, 0]), int(conn[f, 1])
            mlo, mhi = M.cells[lo], M.cells[hi]
            diff = tuple(b - a for a, b in zip(mlo, mhi))
            if diff != tuple(1 if e == d else 0 for e in range(dim)):
                good = False
    ok &= R.check(good, "face_joins_axis_neighbours", case)
    rev = np.asarray(grid.reverse_connectivity)
    good = rev.shape == M.reverse.shape and np.array_equal(rev, M.reverse)
    ok &= R.check(good, "connectivity_bijection", lambda: {**case, "mismatch": int(np.sum(rev != M.reverse)) if rev.shape == M.reverse.shape else "shape"})
    # 'no face' exactly on the outer boundary
    good = True
    for c, m in enumerate(M.cells):
        for d in range(dim):
            if (rev[d, c, 0] == -1) != (m[d] == 0) or (rev[d, c, 1] == -1) != (m[d] == shape[d] - 1):
                good = False
    ok &= R.check(good, "no_face_only_on_outer_boundary", case)
    # interior / exterior partition (the property's clause) ...
    good = True
    good_def = True
    for d in range(dim):
        ins = set(int(x) for x in np.asarray(grid.interior_faces[d]).ravel())
        exs = set(int(x) for x in np.asarray(grid.exterior_faces[d]).ravel())
        if ins & exs or (ins | exs) != set(M.faces[d]) or len(ins) + len(exs) != len(M.faces[d]):
            good = False
        if ins != set(M.interior[d]):
            good_def = False
    ok &= R.check(good, "interior_exterior_partition", case)
    # ... and which faces are interior: only where a tangential direction exists (2-D, 3-D);
    # in 1-D the notion is not defined by the property and the library's choice is accepted.
    if dim >= 2:
        ok &= R.check(good_def, "interior_means_tangentially_inside", case)
    # corner indices lie on the face
    cc = np.asarray(grid.cell_corners, dtype=float)
    cci = np.asarray(grid.cell_corner_indices)
    good = cci.shape == (M.num_faces, 2, 2 ** (dim - 1))
    # reference-cell corners are the 2^dim vertices, each once
    verts = {tuple(v) for v in cc.tolist()}
    good &= len(verts) == 2**dim and all(set(v) <= {0.0, 1.0} for v in verts)
    if good:
        for f in range(M.num_faces):
            d = M.face_axis[f]
            for side in (0, 1):
                idx = cci[f, side]
                if len(set(idx.tolist())) != len(idx) or not np.all(cc[idx][:, d] == 1 - side):
                    good = False
    ok &= R.check(good, "corner_indices_on_face", case)
    # geometry
    fv = np.asarray(grid.face_vol, dtype=float)
    ok &= R.check(
        np.allclose(fv, M.area, rtol=1e-14, atol=0) and len(h) == dim, "face_area_is_product_of_other_sizes", case
    )
    R.sig([list(shape), source], nontrivial=M.num_faces > 0, cls=f"{dim}d")
    return ok


def attach(R, source_ref):
    """Ambient contract on Grid.__init__ (used by other checks as well)."""
    import darsia

    from vf.attach import attach_post

    def grid_post(self):
        judge_grid(R, self, source_ref[0])
        return True

    attach_post(darsia.Grid, "__init__", grid_post, R)


def run_shard(spec, R):
    import darsia

    from vf.gen.images import make_image, rng_for

    src = ["direct"]
    attach(R, src)
    if spec.get("repo_tests"):
        from vf.ambient import run_repo_tests

        src[0] = "repo-tests"
        return run_repo_tests(R, spec["repo_tests"])
    rng = rng_for(spec["seed"], "C07", spec["shard"])
    shapes = all_shapes()
    for i, shape in enumerate(shapes):
        if i % spec["nshards"] != spec["shard"]:
            continue
        for kind in ("scalar", "list", "ndarray"):
            if not R.want(["shape", list(shape), kind]):
                continue
            src[0] = f"direct:{kind}"
            vs = float(10 ** rng.uniform(-2, 2)) if kind == "scalar" else [float(10 ** rng.uniform(-2, 2)) for _ in shape]
            if kind == "ndarray":
                vs = np.array(vs, dtype=float)
            want = np.full(len(shape), vs) if kind == "scalar" else np.array(vs, dtype=float)
            # the caller's own shape container: a list, a tuple, or (with array-valued voxel sizes) an integer array
            shape_arg = list(shape) if kind == "list" else (np.array(shape, dtype=int) if kind == "ndarray" else tuple(shape))
            ok, g = R.guarded("grid_constructible", lambda: darsia.Grid(shape_arg, vs))
            if ok and kind in ("list", "ndarray"):
                shape_arg[0] = shape_arg[0] + 2  # ... which the caller changes afterwards (e.g. to build the next grid)
                if kind == "ndarray":
                    shape_arg *= 2
                R.check(tuple(int(s_) for s_ in g.shape) == tuple(shape), "shape_kept", {"shape": list(shape), "grid_shape_after_caller_changed_its_list": [int(s_) for s_ in g.shape]})
            if ok:
                if kind != "scalar":  # the caller goes on using (and overwriting) its own container
                    for d in range(len(shape)):
                        vs[d] = vs[d] / 2
                    vs = want.tolist()
                R.check(np.array_equal(np.asarray(g.voxel_size, float), want), "voxel_size_kept", {"shape": list(shape)})
                if kind == "list":
                    # the grid after use: every finite-volume operator of the library is built on it, then the grid
                    # itself is judged again (its tables are shared, read-only inputs of those operators)
                    used = []
                    for opname in ("FVDivergence", "FVMass", "FVTangentialFaceReconstruction", "FVFullFaceReconstruction"):
                        try:
                            getattr(darsia, opname)(g)
                            used.append(opname)
                        except Exception:  # constructibility of operators is C06's business
                            pass
                    for mode in ("faces",):
                        try:
                            darsia.FVMass(g, mode)
                        except Exception:
                            pass
                    # ... and the matrix-free helpers are applied with scalar, vector and tensor cell data
                    dg = len(shape)
                    for qshape in (tuple(shape), tuple(shape) + (dg,), tuple(shape) + (dg, dg)):
                        for mode in ("arithmetic", "harmonic"):
                            try:
                                darsia.cell_to_face_average(g, rng.random(qshape) + 0.1, mode)
                            except Exception:
                                pass
                    try:
                        darsia.face_to_cell(g, rng.random(int(g.num_faces)), pt=np.full(dg, 0.5))
                    except Exception:
                        pass
                    src[0] = "direct:after_use"
                    judge_grid(R, g, "direct:after_use")
                    src[0] = f"direct:{kind}"
                    R.count("grid_rejudged_after_use")
                if i < 3:
                    R.sample({"shape": list(shape), "voxel_size": vs, "num_faces": int(g.num_faces)})
    n_img = spec["n_img"] // spec["nshards"]
    for k in range(n_img):
        if not R.want(["image", k]):
            continue
        dim = int(rng.integers(1, 4))
        payload = str(rng.choice(["scalar", "vector"]))
        series = bool(rng.integers(0, 2))
        shp = tuple(int(rng.integers(1, [12, 7, 5][dim - 1] + 1)) for _ in range(dim))
        img, desc = make_image(
            rng, dim, shape=shp, payload=payload, series=series, time_kind="time" if series else "none"
        )
        src[0] = "generate_grid"
        ok, g = R.guarded("grid_constructible", lambda: darsia.generate_grid(img))
        if ok:
            R.check(
                tuple(g.shape) == tuple(desc["shape"])
                and np.allclose(np.asarray(g.voxel_size, float), np.array(desc["dimensions"]) / np.array(desc["shape"]), rtol=1e-14),
                "image_grid_matches_image",
                desc,
            )
            if k == 0:
                R.sample({"image": desc, "grid_shape": list(g.shape)})
            # the same image object after its resolution was changed in place (every second voxel along the last spatial
            # axis kept): the grid asked for now is the grid of the image as it is now
            if shp[dim - 1] >= 2:
                sl_ = tuple([slice(None)] * (dim - 1) + [slice(None, None, 2)])
                img.img = img.img[sl_].copy()
                new_shape = tuple(img.img.shape[:dim])
                ok, g2 = R.guarded("grid_constructible", lambda: darsia.generate_grid(img))
                if ok:
                    R.check(tuple(int(v) for v in g2.shape) == new_shape and np.allclose(np.asarray(g2.voxel_size, float), np.array(desc["dimensions"]) / np.array(new_shape), rtol=1e-14),
                            "image_grid_matches_image", {**desc, "what": "image coarsened in place, grid generated again", "grid_shape": [int(v) for v in g2.shape], "image_shape_now": list(new_shape)})
                    R.count("grid_of_image_changed_in_place")
    # ---- call histories of generate_grid: images that agree in dimensionality, total voxel count and
    # physical dimensions but differ in shape, in random order and with repetitions (a memoised or
    # otherwise stale grid would show up on a later call)
    import itertools

    for hno, total in enumerate([12, 16, 24, 30, 36]):
        if hno % spec["nshards"] != spec["shard"] % 5 or not R.want(["history", total]):
            continue
        for dim in (1, 2, 3):
            shapes_h = [sh for sh in itertools.product(range(1, total + 1), repeat=dim) if int(np.prod(sh)) == total and max(sh) <= 12]
            if not shapes_h:
                continue
            dims_h = [float(rng.uniform(0.5, 4)) for _ in range(dim)]
            order = [shapes_h[i] for i in rng.permutation(len(shapes_h))]
            order = order + order[:3]
            for sh in order:
                im = darsia.Image(np.zeros(sh), space_dim=dim, dimensions=list(dims_h), scalar=True)
                src[0] = "generate_grid:history"
                ok, g = R.guarded("grid_constructible", lambda: darsia.generate_grid(im))
                if ok:
                    R.check(tuple(g.shape) == tuple(sh) and np.allclose(np.asarray(g.voxel_size, float), np.array(dims_h) / np.array(sh), rtol=1e-14)
                            and int(g.num_cells) == total, "image_grid_matches_image",
                            {"history_total": total, "shape": list(sh), "grid_shape": list(g.shape), "dimensions": dims_h})
                    if tuple(g.shape) == tuple(sh):
                        judge_grid(R, g, "generate_grid:history")
                    R.sig(["history", total, dim, list(sh)], True, cls="generate_grid:history")
    R.count("contract_evaluations", R.counters.get("grid_constructed", 0))


MANIFEST = {
    "technique": "icontract postcondition on Grid.__init__ judged against an explicit loop model; exhaustive enumeration of the 186 shapes plus image-derived grids",
    "level_text": "Every grid constructed by the workload (all 186 shapes of the quantifier with scalar and per-axis voxel sizes, and grids derived from random 1-3-D images) is checked structurally at construction time against an independent loop model: numbering, neighbour relation, exact inverse lookup, boundary sentinel, interior/exterior partition, corner indices. The finite shape space is enumerated completely.",
    "level_note": "Trusts the loop model's reading of the numbering convention (Fortran order; faces axis by axis) and that 'interior' means not touching the boundary tangentially, as grid.py's comments say.",
    "design_ref": "DESIGN.md section 3, C07",
}
