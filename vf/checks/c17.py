"""C17 - operations that return new objects do not modify their arguments.

Snapshot monitor: for each entry of a fixed registry of call forms, every
argument (pixel data, metadata, caller-owned containers) and the global random
state are snapshotted before the call and compared after it; random chains of
up to five calls on a shared pool of operands (results fed back as operands)
are monitored the same way with *all* pool members snapshotted, so that aliased
metadata shows up.  Image arithmetic is additionally compared with the same
arithmetic on the raw arrays.
"""

from __future__ import annotations

import numpy as np

LEVEL = "exploration"
EXHAUSTIVE = {"quick": False, "thorough": False}
RULE = (
    "registry of 106 call forms (arithmetic, comparisons, astype/img_as/to_trichromatic(return_image=True)/to_monochromatic, "
    "subregion/time_slice/time_interval/slice, weight, superpose, stack, append, Resize/resize/equalize_voxel_size/"
    "uniform_refinement, reduce_axis/extrude_along_axis, models, Geometry.integrate/normalize, EMD, wasserstein_distance, "
    "zeros_like/ones_like, bounding_box, random_patches, coordinate conversions, layout helpers, Image(...) built from "
    "caller-owned lists) x N random operand sets (quick 6, thorough 60) of every image kind; plus random chains of up to five "
    "calls on a shared operand pool (quick 300, thorough 4000). distinct = (call form or chain op sequence, operand kinds); "
    "non-trivial = at least one argument was snapshotted and the call returned"
)
TOLERANCES = {"snapshots": "exact (dtype, shape, bytes of arrays; == on metadata; global numpy and python RNG state)", "arithmetic vs raw arrays": "bitwise"}
ASSUMPTIONS = [
    "Image.append is documented to modify the image it is called on; only its argument is required to stay untouched",
    "documented scalar types of Image.__mul__ are python float and int (np.float64 is a float); other numpy scalars are judged only if accepted",
]
FLOORS = {
    "quick": {"arguments_unchanged": 350, "rng_state_unchanged": 350, "arithmetic_equals_array": 100, "chain:pool_unchanged": 800},
    "thorough": {"arguments_unchanged": 3500, "rng_state_unchanged": 3500, "arithmetic_equals_array": 1000, "chain:pool_unchanged": 10000},
}


def shards(tier, seed):
    k = 16
    reps = 6 if tier == "quick" else 60
    chains = 300 if tier == "quick" else 4000
    return [{"shard": i, "nshards": k, "reps": max(1, reps // k + (1 if i < reps % k else 0)) if reps >= k else (1 if i < reps else 0), "chains": chains // k + 1} for i in range(k)]


def known_key(name):
    return {
        "mul_int": "C17:mul_rejects_int", "rmul_int": "C17:mul_rejects_int", "mul_int_image_by_int": "C17:mul_rejects_int",
        "cmp_ge_series": "C17:comparison_of_series_images_raises", "cmp_gt_series_scalar": "C17:comparison_of_series_images_raises",
        "weight_image_resized": "C17:weight_resizes_weight_image_in_place",
        "stack": "C17:stack_appends_into_first_image",
        "ctor_dimensions_height": "C17:constructor_writes_into_callers_dimensions",
        "random_patches": "C17:random_patches_reseeds_global_rng",
    }.get(name)


def build_registry(darsia, rng):
    """Returns list of (name, args, fn) - args are the caller-owned objects to snapshot."""
    from datetime import datetime, timedelta

    def img2(shape=None, dtype=np.float64, payload="scalar", series=False, cls=None, dims=None, lo=0.0, hi=1.0):
        shape = shape or (int(rng.integers(3, 9)), int(rng.integers(3, 9)))
        tr = ((3,) if series else ()) + ((3,) if payload == "vector" else ())
        if np.issubdtype(np.dtype(dtype), np.integer):
            arr = rng.integers(0, 200, size=shape + tr).astype(dtype)
        else:
            arr = rng.uniform(lo, hi, size=shape + tr).astype(dtype)
        kw = dict(space_dim=len(shape), dimensions=list(dims or [float(s) * 0.5 for s in shape]), scalar=payload == "scalar", series=series)
        if series:
            kw["time"] = [0.0, 1.0, 2.5]
        if cls is darsia.OpticalImage:
            kw = dict(dimensions=kw["dimensions"], series=series, color_space="RGB", **({"time": [0.0, 1.0, 2.5]} if series else {}))
            return darsia.OpticalImage(arr, **kw)
        return (cls or darsia.Image)(arr, **kw)

    shp = (int(rng.integers(3, 9)), int(rng.integers(3, 9)))
    A, B = img2(shp), img2(shp)
    Ai, Bi = img2(shp, dtype=np.int32), img2(shp, dtype=np.int32)
    V1, V2 = img2(shp, payload="vector"), img2(shp, payload="vector")
    S1, S2 = img2(shp, series=True), img2(shp, series=True)
    O = img2(shp, dtype=np.uint8, payload="vector", cls=darsia.OpticalImage)
    Of = img2(shp, dtype=np.float32, payload="vector", cls=darsia.OpticalImage)
    T = img2((3, 4, 5))
    Wsame = img2(shp, lo=0.5, hi=2.0)
    Wsmall = img2((max(2, shp[0] // 2), max(2, shp[1] // 2)), lo=0.5, hi=2.0, dims=[float(s) * 0.5 for s in shp])
    pos1, pos2 = img2(shp, lo=0.1, hi=1.0), img2(shp, lo=0.1, hi=1.0)
    mass1 = img2((4, 5), lo=0.1, hi=1.0)
    mass2 = darsia.Image(np.roll(mass1.img, 1, axis=0).copy(), space_dim=2, dimensions=list(mass1.dimensions), scalar=True)
    arr2 = rng.random(shp)
    R = []
    add = lambda name, args, fn: R.append((name, args, fn))
    # ---- arithmetic (with array oracle)
    for nm, X, Y in (("scalar", A, B), ("vector", V1, V2), ("series", S1, S2), ("int", Ai, Bi)):
        add(f"add_{nm}", [X, Y], lambda X=X, Y=Y: ("arith", X + Y, X.img + Y.img))
        add(f"sub_{nm}", [X, Y], lambda X=X, Y=Y: ("arith", X - Y, X.img - Y.img))
    add("mul_float", [A], lambda: ("arith", A * 2.5, A.img * 2.5))
    add("rmul_float", [A], lambda: ("arith", 2.5 * A, 2.5 * A.img))
    add("mul_int", [A], lambda: ("arith", A * 3, A.img * 3))
    add("rmul_int", [V1], lambda: ("arith", 3 * V1, 3 * V1.img))
    add("mul_npfloat64", [S1], lambda: ("arith", S1 * np.float64(1.5), S1.img * np.float64(1.5)))
    add("mul_int_image_by_int", [Ai], lambda: ("arith", Ai * 2, Ai.img * 2))
    # integer-typed images with the documented scalar types (float, and an int that does not fit the dtype)
    A8, B8 = img2(shp, dtype=np.uint8), img2(shp, dtype=np.uint16)
    add("mul_uint8_image_by_float", [A8], lambda: ("arith", A8 * 2.5, A8.img * 2.5))
    add("rmul_uint8_image_by_float", [A8], lambda: ("arith", 0.5 * A8, 0.5 * A8.img))
    add("mul_uint8_image_by_large_int", [A8], lambda: ("arith", A8 * 300, A8.img * 300))
    add("mul_int32_image_by_float", [Ai], lambda: ("arith", Ai * 1.5, Ai.img * 1.5))
    add("add_uint8_uint16", [A8, B8], lambda: ("arith", A8 + B8, A8.img + B8.img))
    add("sub_float32_float64", [A], lambda: ("arith", A.astype(np.float32) - A, A.img.astype(np.float32) - A.img))
    # a result (or an extracted sub-image) is extended in place afterwards: the operands / the parent keep their own
    # time stamps
    Sg = img2(shp)
    Sg.time = 9.0

    def _sum_then_append():
        r_ = S1 + S2
        r_.append(Sg.copy())
        return r_

    def _sub_then_append():
        c_ = S1.subregion((slice(0, shp[0] - 1), slice(0, shp[1])))
        c_.append(c_.time_slice(0), offset=1.0)  # a guest that fits the child (same place, same kind)
        return c_

    add("sum_of_series_then_append_to_result", [S1, S2, Sg], _sum_then_append)
    # caller-owned lists of time stamps handed to the constructor (one list serving two series), and the operands of
    # a superposition: the image built from them is extended afterwards
    own_times = [float(t) for t in (S1.time if isinstance(S1.time, list) else range(S1.img.shape[-1]))]
    twin = darsia.Image(S1.img.copy(), space_dim=2, dimensions=list(S1.dimensions), scalar=True, series=True, time=own_times)

    def _construct_then_append():
        n_ = darsia.Image(S1.img.copy(), space_dim=2, dimensions=list(S1.dimensions), scalar=True, series=True, time=own_times)
        n_.append(Sg.copy(), offset=1.0)
        return n_

    def _superpose_then_append():
        r_ = darsia.superpose([S1, S2])
        if isinstance(r_.time, list):
            r_.time.append(99.0)  # the caller goes on working with the result's own list of time stamps
        return r_

    add("construct_series_from_callers_time_list_then_append", [own_times, twin, Sg], _construct_then_append)
    add("superpose_series_then_extend_time_stamps_of_result", [S1, S2, Sg], _superpose_then_append)
    add("subregion_of_series_then_append_to_child", [S1, Sg], _sub_then_append)
    for nm, op in (("lt", lambda x, y: x < y), ("gt", lambda x, y: x > y), ("eq", lambda x, y: x == y), ("le", lambda x, y: x <= y), ("ge", lambda x, y: x >= y)):
        add(f"cmp_{nm}_image", [A, B], lambda op=op: ("arith", op(A, B), op(A.img, B.img)))
        add(f"cmp_{nm}_scalar", [A], lambda op=op: ("arith", op(A, 0.4), op(A.img, 0.4)))
    add("cmp_lt_vector", [V1, V2], lambda: ("arith", V1 < V2, V1.img < V2.img))
    add("cmp_ge_series", [S1, S2], lambda: ("arith", S1 >= S2, S1.img >= S2.img))
    add("cmp_gt_series_scalar", [S1], lambda: ("arith", S1 > 0.5, S1.img > 0.5))
    # ---- conversions
    add("astype_float32", [A], lambda: A.astype(np.float32))
    add("astype_class", [A], lambda: A.astype(darsia.ScalarImage))
    add("img_as_float32", [A], lambda: A.img_as(np.float32))
    add("img_as_float_uint8", [O], lambda: O.img_as(float))
    add("to_trichromatic_hsv", [O], lambda: O.to_trichromatic("HSV", return_image=True))
    add("to_trichromatic_bgr", [Of], lambda: Of.to_trichromatic("BGR", return_image=True))
    add("to_trichromatic_same", [O], lambda: O.to_trichromatic("RGB", return_image=True))
    add("to_monochromatic_gray", [O], lambda: O.to_monochromatic("gray"))
    big = (int(rng.integers(20, 30)), int(rng.integers(20, 30)))
    for cs_ in ("RGB", "BGR", "HSV"):
        for dt_ in (np.uint8, np.float32):
            Og = img2(big, dtype=dt_, payload="vector", cls=darsia.OpticalImage, dims=[2.0, 3.0])
            Og.color_space = cs_
            add(f"add_grid_{cs_}_{np.dtype(dt_).name}", [Og], lambda Og=Og: Og.add_grid(dx=0.5, dy=0.5, thickness=1))
    add("to_monochromatic_red", [O], lambda: O.to_monochromatic("red"))
    add("to_monochromatic_value", [Of], lambda: Of.to_monochromatic("value"))
    Od = img2(shp, dtype=np.float64, payload="vector", cls=darsia.OpticalImage)
    Ods = img2(shp, dtype=np.float64, payload="vector", series=True, cls=darsia.OpticalImage)
    Ofs = img2(shp, dtype=np.float32, payload="vector", series=True, cls=darsia.OpticalImage)
    add("to_trichromatic_hsv_float64", [Od], lambda: Od.to_trichromatic("HSV", return_image=True))
    add("to_trichromatic_bgr_float64_series", [Ods], lambda: Ods.to_trichromatic("BGR", return_image=True))
    add("to_trichromatic_hls_float32_series", [Ofs], lambda: Ofs.to_trichromatic("HLS", return_image=True))
    add("to_monochromatic_gray_float64", [Od], lambda: Od.to_monochromatic("gray"))
    add("to_monochromatic_hue_float64_series", [Ods], lambda: Ods.to_monochromatic("hue"))
    # ---- extraction
    sl = (slice(1, shp[0] - 1), slice(0, shp[1] - 1))
    vox = darsia.make_voxel([[0, 1], [shp[0] - 1, shp[1]]])
    add("subregion_slices", [A, sl], lambda: A.subregion(sl))
    add("subregion_voxels", [V1, vox], lambda: V1.subregion(vox))
    # boxes reaching outside the image (negative corner, corner beyond the last voxel), typed voxels and coordinates
    vox_out = darsia.make_voxel([[-2, 1], [shp[0] + 3, shp[1] + 2]])
    add("subregion_voxels_outside", [A, vox_out], lambda: A.subregion(vox_out))
    vox_out2 = darsia.make_voxel([[1, -3], [shp[0] - 1, shp[1] + 5]])
    add("subregion_voxels_outside_series", [S1, vox_out2], lambda: S1.subregion(vox_out2))
    co_out = darsia.make_coordinate(np.asarray(A.coordinatesystem.coordinate(np.array([[-1.5, -0.5], [shp[0] + 1.5, shp[1] + 2.5]]))))
    add("subregion_coordinates_outside", [A, co_out], lambda: A.subregion(co_out))
    co = darsia.make_coordinate(np.asarray(A.coordinatesystem.coordinate(np.array([[0.5, 0.5], [shp[0] - 0.5, shp[1] - 0.5]]))))
    add("subregion_coordinates", [S1, co], lambda: S1.subregion(co))
    add("time_slice", [S1], lambda: S1.time_slice(1))
    add("time_interval", [S2], lambda: S2.time_interval(slice(0, 2)))
    add("copy", [O], lambda: O.copy())
    add("slice_index", [T], lambda: T.slice(1, 0))
    add("slice_name", [T], lambda: T.slice(float(np.asarray(T.coordinatesystem.coordinate([0.5, 1.5, 0.5]))[0]), "x"))
    add("metadata", [A], lambda: A.metadata())
    add("shape_metadata", [A], lambda: A.shape_metadata())
    # ---- weighting / superposition / stacking
    add("weight_float", [A], lambda: darsia.weight(A, 2.0))
    add("weight_int", [A], lambda: darsia.weight(A, 3))
    add("weight_image_same", [A, Wsame], lambda: darsia.weight(A, Wsame))
    add("weight_image_resized", [A, Wsmall], lambda: darsia.weight(A, Wsmall))
    # image weights on payload-carrying images (same and other resolution)
    add("weight_series_by_image_same", [S1, Wsame], lambda: darsia.weight(S1, Wsame))
    add("weight_vector_by_image_same", [V1, Wsame], lambda: darsia.weight(V1, Wsame))
    add("weight_vector_by_image_resized", [V1, Wsmall], lambda: darsia.weight(V1, Wsmall))
    add("weight_series_by_image_resized", [S2, Wsmall], lambda: darsia.weight(S2, Wsmall))
    wt = np.array([1.0, 2.0, 3.0])
    add("weight_array_per_time", [S1, wt], lambda: darsia.weight(S1, wt))
    sup = [img2(shp, cls=darsia.ScalarImage), img2(shp, cls=darsia.ScalarImage), img2(shp, cls=darsia.ScalarImage)]
    add("superpose", [sup] + sup, lambda: darsia.superpose(sup))
    st = [img2(shp), img2(shp), img2(shp)]
    for k, im in enumerate(st):
        im.time = float(k)
    add("stack", [st] + st, lambda: darsia.stack(st))
    # a series first, single images after it (relative times, then dates)
    ser_t = img2(shp, series=True)
    late = img2(shp)
    late.time = 7.0
    stl = [ser_t, late]
    add("stack_series_then_single_times", [stl, ser_t, late], lambda: darsia.stack(stl))
    d0 = datetime(2024, 3, 1, 8, 0, 0)
    ser_d = darsia.Image(rng.random(shp + (2,)), space_dim=2, dimensions=[float(s) * 0.5 for s in shp], scalar=True, series=True, date=[d0, d0 + timedelta(hours=30)])
    late_d = darsia.Image(rng.random(shp), space_dim=2, dimensions=[float(s) * 0.5 for s in shp], scalar=True, date=d0 + timedelta(days=3, seconds=0.25))
    std = [ser_d, late_d]
    add("stack_series_then_single_dates", [std, ser_d, late_d], lambda: darsia.stack(std))
    ser_a, ser_b = img2(shp, series=True), img2(shp, series=True)
    ser_b.time = [10.0, 11.0, 12.5]
    sts = [ser_a, ser_b]
    add("stack_series_then_series", [sts, ser_a, ser_b], lambda: darsia.stack(sts))
    host, guest = img2(shp), img2(shp)
    add("append_argument", [guest], lambda: host.append(guest))
    # a list of dated images that is not in chronological order (refused by append): the list stays as the caller built it
    from datetime import datetime as _dt, timedelta as _td

    dated = []
    for q_, sec_ in enumerate((30, 10, 20)):
        d_ = img2(shp)
        d_.date = _dt(2023, 5, 6, 7, 8, 9) + _td(seconds=sec_)
        dated.append(d_)
    add("stack_dated_images_out_of_order", [dated, dated[0], dated[1], dated[2]], lambda: darsia.stack(dated))
    # ---- resizing / reduction
    tgt = (max(1, shp[0] // 2), max(1, shp[1] // 2))
    add("Resize_image", [A], lambda: darsia.Resize(shape=tgt, interpolation="inter_area")(A))
    add("Resize_array", [arr2], lambda: darsia.Resize(shape=tgt, interpolation="inter_area")(arr2))
    add("Resize_conservative", [V1], lambda: darsia.Resize(shape=tgt, interpolation="inter_area", **{"resize conservative": True})(V1))
    add("resize_fn", [A, B], lambda: darsia.resize(A, ref_image=B, interpolation="inter_linear"))
    big = (2 * shp[0], 3 * shp[1])
    rz_up = darsia.Resize(shape=big, interpolation="inter_area", **{"resize conservative": True})
    add("Resize_conservative_refining_image", [V1], lambda: (rz_up(V1), rz_up(V1)))
    add("Resize_conservative_refining_array", [arr2], lambda: rz_up(arr2))
    add("equalize_voxel_size", [A], lambda: darsia.equalize_voxel_size(A))
    add("uniform_refinement_up", [S1], lambda: darsia.uniform_refinement(S1, 1))
    add("uniform_refinement_down", [A], lambda: darsia.uniform_refinement(A, -1))
    add("reduce_axis_index", [T], lambda: darsia.reduce_axis(T, 0, "sum"))
    add("reduce_axis_name", [A], lambda: darsia.reduce_axis(A, "x", "average"))
    add("extrude", [A], lambda: darsia.extrude_along_axis(A, 1.0, 3))
    # ---- models
    add("clip_array", [arr2], lambda: darsia.ClipModel(**{"min value": 0.2, "max value": 0.7})(arr2))
    add("clip_image", [A], lambda: darsia.ClipModel(**{"min value": 0.2, "max value": 0.7})(A))
    add("scaling_array", [arr2], lambda: darsia.ScalingModel(scaling=2.0)(arr2))
    add("linear_array", [arr2], lambda: darsia.LinearModel(scaling=2.0, offset=0.5)(arr2))
    # unit slope with an offset (also reached by re-parametrising a used model), on raw arrays of float and integer type
    add("linear_array_unit_scaling", [arr2], lambda: darsia.LinearModel(scaling=1.0, offset=0.3)(arr2))
    arr_i = (arr2 * 100).astype(np.int64)
    add("linear_int_array_unit_scaling", [arr_i], lambda: darsia.LinearModel(scaling=1, offset=3)(arr_i))

    def _lin_updated():
        m_ = darsia.LinearModel(scaling=2.0, offset=0.1)
        first_ = m_(arr2)
        m_.update_model_parameters(np.array([1.0, -0.1]), None)
        return first_, m_(arr2), m_(arr2)

    add("linear_array_after_update_to_unit_scaling", [arr2], _lin_updated)
    # an output the caller kept from an earlier evaluation of a label-wise model stays what it was when the model is
    # evaluated again on a signal of the same format
    hl_lab = (np.arange(arr2.size).reshape(arr2.shape) % 3).astype(np.uint8)
    hl_model = darsia.HeterogeneousLinearModel(hl_lab, scaling=np.array([1.0, 2.0, 3.0]), offset=np.array([0.0, 0.1, 0.2]))
    hl_kept = hl_model(arr2.copy())
    add("labelwise_linear_evaluated_again", [hl_kept, arr2], lambda: (hl_model(arr2 * 0.5), hl_model(hl_kept)))
    add("combined_array", [arr2], lambda: darsia.CombinedModel([darsia.LinearModel(scaling=2.0, offset=0.1), darsia.ClipModel(**{"min value": 0.3, "max value": 1.5})])(arr2))
    add("threshold_array", [arr2], lambda: darsia.StaticThresholdModel(0.3, 0.8)(arr2))
    msk = arr2 > 0.2
    add("threshold_mask", [arr2, msk], lambda: darsia.StaticThresholdModel(0.3, 0.8)(arr2, msk))
    # label-wise thresholds given as arrays (and inside an options dictionary); the dynamic variants re-calibrate
    # their thresholds on every evaluation
    tlab = (np.arange(arr2.size).reshape(arr2.shape) % 2).astype(int)
    for ti, tmeth in enumerate(["otsu", "tailored global min", "tailored otsu"]):
        tlo, thi = np.array([0.05, 0.1]), np.array([0.9, 0.8])
        topts = {"threshold dynamic": True, "threshold method": tmeth, "threshold value min": tlo, "threshold value max": thi}

        def dyn(topts=topts):
            m_ = darsia.ThresholdModel(tlab, **topts)
            return m_(arr2), m_(np.sqrt(arr2))

        add(f"threshold_dynamic_labelwise_{ti}", [arr2, tlab, tlo, thi, topts], dyn)
    slo, shi = np.array([0.2, 0.3]), np.array([0.7, 0.9])
    add("threshold_static_labelwise_arrays", [arr2, tlab, slo, shi], lambda: darsia.StaticThresholdModel(slo, shi, tlab)(arr2))
    # ---- measures
    geo = darsia.Geometry(**A.shape_metadata())
    add("integrate_image", [A], lambda: geo.integrate(A))
    add("integrate_array", [arr2], lambda: darsia.Geometry(space_dim=2, num_voxels=list(shp), dimensions=[1.0, 2.0]).integrate(arr2))
    wgeo = darsia.WeightedGeometry(weight=Wsame.img.copy(), **A.shape_metadata())
    add("integrate_weighted_coarse", [A], lambda: wgeo.integrate(darsia.uniform_refinement(A, 1)))
    add("normalize", [pos1, pos2], lambda: darsia.Geometry(**pos1.shape_metadata()).normalize(pos1, pos2))
    add("emd", [mass1, mass2], lambda: darsia.EMD()(mass1, mass2))
    # all mutual distances of a list of images, with a preprocessing step (coarsening) configured
    me_ = np.random.default_rng(3).random((3, 4, 6)) + 0.1
    me_ /= me_.sum(axis=(1, 2), keepdims=True)
    elist = [darsia.Image(me_[i_].copy(), space_dim=2, dimensions=[1.0, 1.5], scalar=True) for i_ in range(3)]
    emd_pre = darsia.EMD(darsia.Resize(fx=0.5, fy=0.5, interpolation="inter_area", **{"resize conservative": True}))
    add("emd_distance_matrix_with_preprocessing", [elist, elist[0], elist[1], elist[2]], lambda: (emd_pre.distance_matrix(elist), emd_pre.distance_matrix(elist)))
    add("wasserstein_newton", [mass1, mass2], lambda: darsia.wasserstein_distance(mass1, mass2, "newton", options={"num_iter": 3}))
    wim = darsia.Image(np.full((4, 5), 2.0), space_dim=2, dimensions=list(mass1.dimensions), scalar=True)
    opts = {"num_iter": 3, "return_info": True}
    add("wasserstein_bregman_weighted", [mass1, mass2, wim, opts], lambda: darsia.wasserstein_distance(mass1, mass2, "bregman", weight=wim, options=opts))
    # iterative back-ends on a grid large enough for a genuine multilevel hierarchy (more than 100 cells)
    rb_ = np.random.default_rng(11)
    big1 = darsia.Image(rb_.random((12, 11)), space_dim=2, dimensions=[1.2, 1.1], scalar=True)
    big2 = darsia.Image(rb_.random((12, 11)), space_dim=2, dimensions=[1.2, 1.1], scalar=True)
    big2.img *= big1.img.sum() / big2.img.sum()
    for meth_, ls_ in (("newton", "amg"), ("bregman", "cg")):
        add(f"wasserstein_{meth_}_{ls_}_multilevel", [big1, big2], lambda meth_=meth_, ls_=ls_: darsia.wasserstein_distance(
            big1, big2, meth_, options={"num_iter": 2, "linear_solver": ls_, "formulation": "pressure", "linear_solver_options": {"atol": 1e-10, "rtol": 1e-10, "maxiter": 200}}))
    # a weight that vanishes (exactly, or below any regularisation) in a part of the domain
    wz = np.full((4, 5), 1.5)
    wz[0, :2] = 0.0
    wz[3, 4] = 1e-20
    wzim = darsia.Image(wz, space_dim=2, dimensions=list(mass1.dimensions), scalar=True)
    for meth_ in ("newton", "bregman"):
        add(f"wasserstein_{meth_}_weight_with_zeros", [mass1, mass2, wzim], lambda meth_=meth_: darsia.wasserstein_distance(mass1, mass2, meth_, weight=wzim, options={"num_iter": 2}))
    add("wasserstein_emd", [mass1, mass2], lambda: darsia.wasserstein_distance(mass1, mass2, "cv2.emd"))
    # non-default back-ends with nested, caller-owned option dictionaries
    for meth in ("newton", "bregman"):
        for ls in ("amg", "cg"):
            o2 = {"num_iter": 3, "linear_solver": ls, "formulation": "pressure", "linear_solver_options": {"rtol": 1e-8, "maxiter": 200},
                  "amg_options": {"max_levels": 4, "coarse_solver": "pinv"}}
            add(f"wasserstein_{meth}_{ls}_nested_options", [mass1, mass2, o2], lambda meth=meth, o2=o2: darsia.wasserstein_distance(mass1, mass2, meth, options=o2))
    # ---- standard images, boxes, helpers
    add("zeros_like", [V1], lambda: darsia.zeros_like(V1))
    add("ones_like_voxels", [S1], lambda: darsia.ones_like(S1, mode="voxels", dtype=np.float32))
    vx = darsia.make_voxel(rng.integers(0, 6, size=(5, 2)))
    mx = [6, 6]
    add("bounding_box", [vx, mx], lambda: darsia.bounding_box(vx, padding=1, max_size=mx))
    mask = rng.random((12, 12)) > 0.3
    add("random_patches", [mask], lambda: darsia.random_patches(mask, 2, 3))
    # many patches from a small eligible region (coinciding draws), and more patches than eligible points
    small = np.zeros((15, 16), dtype=bool)
    small[2:8, 3:9] = rng.random((6, 6)) > 0.2
    add("random_patches_many_from_small_region", [small], lambda: darsia.random_patches(small, 4, 40))
    add("random_patches_more_than_eligible", [small], lambda: darsia.random_patches(small, 3, 500))
    block = np.zeros((30, 40), dtype=bool)
    block[5:20, 8:24] = True
    if rng.random() < 0.5:
        block[int(rng.integers(5, 20)), int(rng.integers(8, 24))] = False
    add("random_patches_coinciding_draws", [block], lambda: darsia.random_patches(block, 4, int(rng.integers(30, 60))))
    pts = rng.integers(-2, 8, size=(4, 2))
    add("cs_coordinate", [pts], lambda: A.coordinatesystem.coordinate(pts))
    cpt = rng.random((4, 2)) * 3
    add("cs_voxel", [cpt], lambda: A.coordinatesystem.voxel(cpt))
    lst = [[1, 2], [3, 4]]
    add("make_voxel_list", [lst], lambda: darsia.make_voxel(lst))
    add("voxel_center_to_voxel", [vx], lambda: darsia.make_voxel_center(vx).to_voxel())
    add("matrixToCartesian", [arr2], lambda: darsia.matrixToCartesianIndexing(arr2, 2))
    add("cartesianToMatrix", [arr2], lambda: darsia.cartesianToMatrixIndexing(arr2))
    # ---- constructors from caller-owned containers
    dl = [2.0, 3.0]
    add("ctor_dimensions", [dl, arr2], lambda: darsia.Image(arr2, dimensions=dl, scalar=True))
    dl2 = [2.0, 3.0]
    add("ctor_dimensions_height", [dl2, arr2], lambda: darsia.Image(arr2, dimensions=dl2, height=5.0, width=7.0, scalar=True))
    ol = [1.0, 4.0]
    add("ctor_origin_list", [ol, arr2], lambda: darsia.Image(arr2, origin=ol, scalar=True))
    dates = [datetime(2024, 1, 1) + timedelta(seconds=60 * k) for k in range(3)]
    sarr = rng.random(shp + (3,))
    add("ctor_dates", [dates, sarr], lambda: darsia.Image(sarr, series=True, scalar=True, date=dates))
    md = A.metadata()
    add("ctor_from_metadata", [md, A], lambda: darsia.Image(A.img.copy(), **md))
    return R


def run_shard(spec, R):
    import darsia

    from vf.gen.images import rng_for
    from vf.snapshots import diff, rng_state, snap

    # ------------------------------------------------------------ registry
    for rep in range(spec["reps"]):
        rng = rng_for(spec["seed"], "C17", spec["shard"], rep)
        np.random.seed(int(rng.integers(0, 2**31)))  # a caller-owned global RNG state
        import random

        random.seed(int(rng.integers(0, 2**31)))
        reg = build_registry(darsia, rng)
        for name, args, fn in reg:
            if not R.want([rep, name]):
                continue
            before = [snap(a) for a in args]
            rb = rng_state()
            key = known_key(name)
            is_arith = name.split("_")[0] in ("add", "sub", "mul", "rmul", "cmp")
            ok, out = True, None
            try:
                out = fn()
            except Exception as e:  # noqa
                ok = False
                if is_arith:  # arithmetic must agree with raw-array arithmetic, which does not raise
                    R.violation("arithmetic_equals_array:raises", {"call": name, "exception": f"{type(e).__name__}: {str(e)[:150]}"}, key, group=name)
                else:  # a raising call is outside this property, its arguments are still judged
                    R.skip(f"call_raised_outside_property:{name}:{type(e).__name__}")
            after = [snap(a) for a in args]
            ra = rng_state()
            changed = [i for i, (x, y) in enumerate(zip(before, after)) if x != y]
            R.check(not changed, "arguments_unchanged",
                    lambda: {"call": name, "argument_index": changed[0], "argument_type": type(args[changed[0]]).__name__, "difference": diff(before[changed[0]], after[changed[0]])},
                    key=key, group=name)
            R.check(rb == ra, "rng_state_unchanged", {"call": name}, key=key, group=name)
            if ok and isinstance(out, tuple) and len(out) == 3 and isinstance(out[0], str) and out[0] == "arith":
                _, res, exp = out
                R.check(isinstance(res, darsia.Image) and res.img.shape == np.shape(exp) and np.array_equal(res.img, exp) and res.img.dtype == np.asarray(exp).dtype,
                        "arithmetic_equals_array", lambda: {"call": name, "result_dtype": str(res.img.dtype), "expected_dtype": str(np.asarray(exp).dtype)}, key=key, group=name)
            R.sig([name, [type(a).__name__ for a in args]], nontrivial=ok and len(args) > 0, cls=name.split("_")[0])
            if rep == 0 and name in ("add_scalar", "weight_image_resized", "stack"):
                R.sample({"call": name, "arguments": [type(a).__name__ for a in args], "changed": changed})

    # -------------------------------------------------------------- chains
    OPS = ["add", "sub", "mul", "subregion", "copy", "astype", "weight", "refine", "zeros_like", "rebuild_with_height", "time_slice_of_stack", "reset_origin_copy",
           "resize", "clip"]
    for n in range(spec["chains"]):
        if not R.want(["chain", n]):
            continue
        rng = rng_for(spec["seed"], "C17", 100 + spec["shard"], n)
        shp = (int(rng.integers(2, 7)), int(rng.integers(2, 7)))
        dims = [float(shp[0]), float(shp[1]) * 0.5]
        pool = [darsia.Image(rng.random(shp), space_dim=2, dimensions=list(dims), scalar=True, time=float(k)) for k in range(2)]
        ops = []
        L = int(rng.integers(2, 6))
        for step in range(L):
            op = str(rng.choice(OPS))
            x = pool[int(rng.integers(0, len(pool)))]
            y = pool[int(rng.integers(0, len(pool)))]
            ops.append(op)
            before = [snap(p) for p in pool]
            key = None

            def call():
                if op == "add":
                    return x + y if x.img.shape == y.img.shape else x + x
                if op == "sub":
                    return x - y if x.img.shape == y.img.shape else x - x
                if op == "mul":
                    return x * 1.5
                if op == "subregion":
                    return x.subregion((slice(0, max(1, x.img.shape[0] - 1)), slice(0, None)))
                if op == "copy":
                    return x.copy()
                if op == "astype":
                    return x.astype(np.float32).astype(np.float64)
                if op == "weight":
                    return darsia.weight(x, 2.0)
                if op == "refine":
                    return darsia.uniform_refinement(x, 1) if x.img.size < 400 else x.copy()
                if op == "zeros_like":
                    return darsia.zeros_like(x)
                if op == "rebuild_with_height":
                    return darsia.Image(x.img.copy(), height=float(rng.uniform(1, 9)), **x.metadata())
                if op == "time_slice_of_stack":
                    a, b = x.copy(), y.copy()
                    if a.img.shape != b.img.shape:
                        b = x.copy()
                    return darsia.stack([a, b]).time_slice(0)
                if op == "reset_origin_copy":
                    return x.copy().reset_origin(return_image=True)
                if op == "resize":
                    return darsia.resize(x, shape=(max(1, x.img.shape[0] - 1), x.img.shape[1]), interpolation="inter_area")
                if op == "clip":
                    return darsia.ClipModel(**{"min value": 0.2, "max value": 0.9})(x)

            if op == "rebuild_with_height":
                key = "C17:constructor_writes_into_callers_dimensions"
            ok, out = True, None
            try:
                out = call()
            except Exception as e:  # a raising call is outside this property; the pool is still judged
                ok = False
                R.skip(f"chain_call_raised:{op}:{type(e).__name__}")
            after = [snap(p) for p in pool]
            changed = [i for i, (a, b) in enumerate(zip(before, after)) if a != b]
            R.check(not changed, "chain:pool_unchanged", lambda: {"ops": list(ops), "step": step, "member": changed[0], "difference": diff(before[changed[0]], after[changed[0]])},
                    key=key, group=op)
            if changed:
                break
            if ok and isinstance(out, darsia.Image) and out.space_dim == 2 and out.scalar and not out.series and len(pool) < 6:
                pool.append(out)
        R.sig(["chain", ops], nontrivial=len(ops) >= 2, cls="chain")
        if n < 1:
            R.sample({"chain": ops, "pool_size": len(pool)})


MANIFEST = {
    "technique": "snapshot monitor (deep content snapshots of every argument, of all live operands in call chains, and of the global numpy/python RNG state) around a fixed registry of call forms; array-arithmetic oracle",
    "level_text": "Every call form of a 106-entry registry is executed on several random operand sets of every image kind with all arguments and the global random state snapshotted before and compared after; random chains of up to five calls on a shared operand pool (results fed back, so that metadata containers shared between images become observable) snapshot the whole pool at every step. Arithmetic results are compared bitwise with raw-array arithmetic for the documented scalar types.",
    "level_note": "The registry is a fixed list (functions not in it are not observed); Image.append modifies its receiver by documentation, only its argument is judged.",
    "design_ref": "DESIGN.md section 3, C17",
}
