"""C02 - extracted sub-images keep their data and their physical placement.

Monitors: boundary monitors on Image.subregion / time_slice / time_interval /
append / darsia.stack with a provenance map (shadow state: child -> (root copy,
spatial offset, retained time indices)); every returned image is judged against
the root through an independent block model.  The C01 coordinate contracts are
attached ambiently.
"""

from __future__ import annotations

import itertools
from datetime import timedelta

import numpy as np

from vf.oracles import coords as CO

LEVEL = "exploration"
EXHAUSTIVE = {"quick": False, "thorough": False}
RULE = (
    "random extraction programs of 1..4 steps from {subregion by slices | voxel corner points | physical corner "
    "points, time_slice, time_interval} on random 2-D/3-D roots (scalar/vector, single/series, dates | relative "
    "times | neither; Image / ScalarImage / OpticalImage); range classes interior, border-touching, open-ended, "
    "beyond-border and from-end (python slice semantics) and partly-outside corner boxes (clipped); plus series "
    "assembled by append (with offsets) and stack from 2..5 single-time images. distinct = (dim, payload, "
    "time kind, program op sequence, range classes); non-trivial = a strict sub-block or a strict time subset / a re-sliced stack"
)
TOLERANCES = {
    "pixel data": "bitwise",
    "coordinates of child voxels": "64*eps*(|origin| + |dimensions|) per component",
    "dimensions / voxel size": "64*eps*(|origin| + |dimensions|) absolute on the physical extent",
    "times": "exact (floats copied or date differences)",
}
ASSUMPTIONS = [
    "slices follow python/numpy semantics (slice.indices): the selected block is parent.img[slices]",
    "corner points select [max(0,min), min(max,n)) per axis (Image.subregion docstring and code comments)",
    "append(image, offset) documents the stored time of the appended slice as its own time plus offset",
]
FLOORS = {
    "quick": {"series_of_mixed_data_types": 30, "strided_time_intervals": 40, "stack_inputs_untouched": 300, "block_data": 2500, "placement": 2500, "time_stamps": 1000, "physical_equals_voxel_box": 300, "stack_roundtrip": 300, "sibling_extractions": 300, "roi_object_reused": 100},
    "thorough": {"series_of_mixed_data_types": 300, "strided_time_intervals": 400, "stack_inputs_untouched": 3000, "block_data": 30000, "placement": 30000, "time_stamps": 12000, "physical_equals_voxel_box": 3000, "stack_roundtrip": 3000, "sibling_extractions": 3000, "roi_object_reused": 1000},
}


def shards(tier, seed):
    k = 16
    n = 1500 if tier == "quick" else 20000
    ns = 320 if tier == "quick" else 3200
    return [{"shard": i, "nshards": k, "n": n // k + 1, "n_series": ns // k} for i in range(k)]


# --------------------------------------------------------------- generators
def gen_range(rng, n):
    """(start, stop, class) with python slice semantics, non-empty."""
    for _ in range(50):
        cls = str(rng.choice(["interior", "border", "open", "beyond", "from_end"], p=[0.35, 0.2, 0.2, 0.15, 0.1]))
        if cls == "interior" and n >= 3:
            a = int(rng.integers(1, n - 1))
            b = int(rng.integers(a + 1, n))
        elif cls == "border":
            if rng.random() < 0.5:
                a, b = 0, int(rng.integers(1, n + 1))
            else:
                a, b = int(rng.integers(0, n)), n
        elif cls == "open":
            r = rng.random()
            if r < 0.33:
                a, b = None, None
            elif r < 0.66:
                a, b = None, int(rng.integers(1, n + 1))
            else:
                a, b = int(rng.integers(0, n)), None
        elif cls == "beyond":
            a, b = int(rng.integers(0, n)), n + int(rng.integers(1, 4))
        elif cls == "from_end":
            a = -int(rng.integers(1, n + 1))
            b = None if rng.random() < 0.5 else int(rng.integers(n + a + 1, n + 1))
        else:
            continue
        s, e, _ = slice(a, b).indices(n)
        if e > s:
            return a, b, cls
    return None, None, "open"


def gen_corner_box(rng, shape):
    """Voxel corner points (possibly partly outside); returns pts (k x dim), class, expected [lo, hi) per axis."""
    dim = len(shape)
    for _ in range(50):
        outside = rng.random() < 0.35
        lo, hi = [], []
        for n in shape:
            if outside and rng.random() < 0.6:
                a = int(rng.integers(-3, n))
                b = int(rng.integers(max(a + 1, 1), n + 4))
            else:
                a = int(rng.integers(0, n))
                b = int(rng.integers(a + 1, n + 1))
            lo.append(a)
            hi.append(b)
        exp = [(max(0, a), min(b, n)) for a, b, n in zip(lo, hi, shape)]
        if all(e > s for s, e in exp):
            # at least space_dim points uniquely defining the box: two opposite corners + random extra corners
            corners = [lo, hi]
            for _ in range(int(rng.integers(0, 3))):
                corners.append([lo[d] if rng.random() < 0.5 else hi[d] for d in range(dim)])
            order = rng.permutation(len(corners))
            cls = "outside" if any(a < 0 or b > n for a, b, n in zip(lo, hi, shape)) else (
                "border" if any(a == 0 or b == n for a, b, n in zip(lo, hi, shape)) else "interior")
            return np.array([corners[i] for i in order], dtype=int), cls, exp
    return np.array([[0] * dim, list(shape)], dtype=int), "border", [(0, n) for n in shape]


class Prov:
    """Shadow state of one extracted image."""

    def __init__(self, root_arr, root_meta, offset, times, series):
        self.root_arr = root_arr  # full copy of the root array
        self.meta = root_meta  # dim, shape, dims, origin, scalar, nt, dates, times
        self.offset = list(offset)
        self.extent = None
        self.times = times  # list of retained root time indices (series) or single index / None
        self.series = series


def expected_array(p: Prov, extent):
    m = p.meta
    dim = m["dim"]
    sl = tuple(slice(o, o + e) for o, e in zip(p.offset, extent))
    arr = p.root_arr[sl]
    if m["series"]:
        if p.series:
            arr = np.take(arr, p.times, axis=dim)
        else:
            arr = np.take(arr, p.times, axis=dim)  # single index -> axis removed
    return arr


def judge_child(R, child, p: Prov, extent, case, typ):
    """All clauses of the property for one extracted image."""
    m = p.meta
    dim = m["dim"]
    eps = np.finfo(float).eps
    grp = case.get("ops")
    exp = expected_array(p, extent)
    same = child.img.shape == exp.shape and child.img.dtype == exp.dtype and np.array_equal(child.img, exp)
    R.check(same, "block_data", lambda: {**case, "got_shape": list(child.img.shape), "exp_shape": list(exp.shape)}, group=grp)
    # kind and payload layout
    R.check(type(child) is typ and child.scalar == m["scalar"] and child.series == p.series and child.space_dim == dim,
            "kind_and_layout", lambda: {**case, "type": type(child).__name__, "series": child.series, "scalar": child.scalar})
    # placement: corner voxels + a sample map to the root's coordinates at v + offset
    scale = np.array([abs(m["origin"][c]) + abs(m["dims"][mm]) for c, (mm, s) in enumerate(CO.TABLE[dim])])
    tol = 64 * eps * scale
    ccs = child.coordinatesystem
    corners = np.array(list(itertools.product(*[(0, e) for e in extent])), dtype=int)
    got = np.asarray(ccs.coordinate(corners), float)
    expc = CO.coordinate(dim, m["shape"], m["dims"], m["origin"], corners + np.array(p.offset))
    good = bool(np.all(np.abs(got - expc) <= tol))
    R.check(good, "placement", lambda: {**case, "max_err": float(np.max(np.abs(got - expc))), "extent": list(extent), "offset": p.offset,
                                         "child_origin": np.asarray(child.origin, float).tolist(), "child_dims": list(child.dimensions)},
            key=lambda: case.get("known_key"), group=grp)
    # voxel size equal to the root's
    h_root = CO.voxel_size(m["shape"], m["dims"])
    dims_exp = [extent[d] * h_root[d] for d in range(dim)]
    dtol = [64 * eps * (scale[CO.MATRIX[dim][d][0]]) for d in range(dim)]
    good = all(abs(child.dimensions[d] - dims_exp[d]) <= dtol[d] for d in range(dim))
    R.check(good, "voxel_size_kept", lambda: {**case, "child_voxel_size": [float(x) for x in child.voxel_size], "root_voxel_size": h_root, "extent": list(extent)},
            key=lambda: case.get("known_key"), group=grp)
    # time stamps
    if m["series"]:
        if p.series:
            exp_date = [m["dates"][t] for t in p.times]
            exp_time = [m["times"][t] for t in p.times]
        else:
            exp_date = m["dates"][p.times]
            exp_time = m["times"][p.times]
    else:
        exp_date, exp_time = m["dates"], m["times"]
    R.check(child.date == exp_date and child.time == exp_time, "time_stamps",
            lambda: {**case, "date": str(child.date), "exp_date": str(exp_date), "time": child.time, "exp_time": exp_time}, group=grp)


def root_meta(img, desc):
    return {
        "dim": desc["space_dim"], "shape": tuple(desc["shape"]), "dims": list(desc["dimensions"]), "origin": list(desc["origin"]),
        "scalar": desc["payload"] == "scalar", "series": desc["series"],
        "dates": list(img.date) if isinstance(img.date, list) else img.date,
        "times": list(img.time) if isinstance(img.time, list) else img.time,
    }


def run_shard(spec, R):
    import darsia

    from vf.checks import c01
    from vf.gen.images import make_image, rng_for

    c01.attach(R)
    seed, shard = spec["seed"], spec["shard"]

    # ============================================================ extraction programs
    for n in range(spec["n"]):
        if not R.want(["prog", n]):
            continue
        rng = rng_for(seed, "C02", shard, n)
        dim = int(rng.choice([2, 3]))
        payload = str(rng.choice(["scalar", "vector"]))
        series = bool(rng.random() < 0.5)
        time_kind = str(rng.choice(["date", "time", "none"]))
        cls = darsia.Image
        nc = 3
        r = rng.random()
        if dim == 2 and payload == "vector" and r < 0.3:
            cls = darsia.OpticalImage
        elif payload == "scalar" and r < 0.3:
            cls = darsia.ScalarImage
        shape = tuple(int(rng.integers(2, 9 if dim == 2 else 6)) for _ in range(dim))
        nt = int(rng.integers(2, 6))
        kw = {}
        root, desc = make_image(rng, dim, shape=shape, payload=payload, series=series, time_kind=time_kind, nt=nt, nc=nc,
                                origin_kind=str(rng.choice(["default", "user"])) if n % 4 else "default",
                                # every fourth program: physical dimensions given as plain integers (the origin is derived)
                                dimensions=[float(10 ** rng.uniform(-1, 1)) for _ in range(dim)] if n % 4 else [int(rng.integers(1, 9)) for _ in range(dim)],
                                cls=cls, integer_valued=True)
        if n % 4 == 0:
            R.count("integer_dimensions_roots")
        meta = root_meta(root, desc)
        root_arr = root.img.copy()
        if time_kind == "date":
            # relative times are date minus reference date (first date), decided independently
            if series:
                exp_t = [(d - root.date[0]).total_seconds() for d in root.date]
            else:
                exp_t = 0.0
            R.check(root.time == exp_t, "relative_time_is_date_minus_reference", {"prog": n, "time": root.time, "expected": exp_t})
        p = Prov(root_arr, meta, [0] * dim, list(range(nt)) if series else None, series)
        extent = list(shape)
        cur = root
        ops, classes = [], []
        nsteps = int(rng.integers(1, 5))
        case = {"prog": n, "root": desc, "steps": []}
        nontrivial = False
        for step in range(nsteps):
            choices = ["sub_slices", "sub_voxels", "sub_coords"]
            if p.series:
                choices += ["time_slice", "time_interval"]
            op = str(rng.choice(choices))
            case["known_key"] = None
            par_p, par_extent = p, list(extent)
            if op == "sub_slices":
                rs = [gen_range(rng, e) for e in extent]
                sl = tuple(slice(a, b) for a, b, _ in rs)
                norm = [slice(a, b).indices(e)[:2] for (a, b, _), e in zip(rs, extent)]
                cl = "+".join(sorted({c for _, _, c in rs}))
                stepd = {"op": op, "slices": [[a, b] for a, b, _ in rs]}
                if any(c in ("beyond", "from_end") for _, _, c in rs):
                    case["known_key"] = "C02:subregion_slices_not_normalised"
                call = lambda: cur.subregion(sl)
                new_off = [p.offset[d] + norm[d][0] for d in range(dim)]
                new_ext = [norm[d][1] - norm[d][0] for d in range(dim)]
            elif op in ("sub_voxels", "sub_coords"):
                pts, cl, exp = gen_corner_box(rng, extent)
                stepd = {"op": op, "points": pts.tolist()}
                new_off = [p.offset[d] + exp[d][0] for d in range(dim)]
                new_ext = [exp[d][1] - exp[d][0] for d in range(dim)]
                if op == "sub_voxels":
                    va = darsia.make_voxel(pts)
                    call = lambda: cur.subregion(va)
                else:
                    # physical corner points strictly inside the corner voxels (offset .25-.75)
                    frac = pts + rng.uniform(0.25, 0.75, size=pts.shape)
                    cm = (dim, tuple(extent), [extent[d] * CO.voxel_size(meta["shape"], meta["dims"])[d] for d in range(dim)],
                          CO.coordinate(dim, meta["shape"], meta["dims"], meta["origin"], np.array(p.offset)).tolist())
                    phys = CO.coordinate(*cm, frac)
                    stepd["coordinates"] = phys.tolist()
                    ca = darsia.make_coordinate(phys)
                    call = lambda: cur.subregion(ca)
            elif op == "time_slice":
                k = int(rng.integers(0, len(p.times)))
                stepd = {"op": op, "index": k}
                cl = "t"
                call = lambda: cur.time_slice(k)
            else:
                a, b, cl = gen_range(rng, len(p.times))
                if cl in ("beyond", "from_end"):
                    cl = "t:" + cl
                # an interval may be strided (every second / third retained time step)
                st = int(rng.choice([2, 3])) if rng.random() < 0.3 else None
                stepd = {"op": op, "slice": [a, b] if st is None else [a, b, st]}
                if st is not None:
                    cl = cl + ":strided"
                    R.count("strided_time_intervals")
                call = lambda: cur.time_interval(slice(a, b, st))
            ops.append(op)
            classes.append(cl)
            case["steps"].append(stepd)
            case["ops"] = "/".join(ops)
            key = case["known_key"]
            ok, child = R.guarded(op, call, key=lambda e, w: key)
            if not ok:
                break
            if op.startswith("sub_"):
                if new_ext != extent:
                    nontrivial = True
                p = Prov(root_arr, meta, new_off, p.times, p.series)
                extent = new_ext
                R.count("spatial_extractions")
            elif op == "time_slice":
                p = Prov(root_arr, meta, p.offset, p.times[k], False)
                nontrivial = True
                R.count("time_extractions")
            else:
                sel = list(range(len(p.times)))[slice(a, b, st)]
                if len(sel) < len(p.times):
                    nontrivial = True
                p = Prov(root_arr, meta, p.offset, [p.times[i] for i in sel], True)
                R.count("time_extractions")
            nviol = len(R.violations) + sum(R._vcount.values())
            judge_child(R, child, p, extent, case, cls)
            if len(R.violations) + sum(R._vcount.values()) != nviol:
                break  # a wrong child would only pollute the judgement of later steps
            # a sibling: same extent, another place in the same parent; both are judged, the first one once more
            # afterwards (extracted images of equal size must not share anything that depends on their place)
            if op.startswith("sub_") and all(e > 0 for e in extent) and step % 2 == 0:
                rel = [p.offset[d] - par_p.offset[d] for d in range(dim)]
                alt = [[s for s in range(0, par_extent[d] - extent[d] + 1) if s != rel[d]] for d in range(dim)]
                if any(alt):
                    sib_rel = [int(rng.choice(alt[d])) if alt[d] and rng.random() < 0.8 else rel[d] for d in range(dim)]
                    if sib_rel == rel:
                        d0 = [d for d in range(dim) if alt[d]][0]
                        sib_rel[d0] = int(alt[d0][0])
                    sib_sl = tuple(slice(sib_rel[d], sib_rel[d] + extent[d]) for d in range(dim))
                    ok3, sib = R.guarded("sub_slices", lambda: cur.subregion(sib_sl))
                    if ok3:
                        sp = Prov(root_arr, meta, [par_p.offset[d] + sib_rel[d] for d in range(dim)], p.times, p.series)
                        scase = {**case, "sibling_of_last_step": [[s.start, s.stop] for s in sib_sl]}
                        judge_child(R, sib, sp, extent, scase, cls)
                        judge_child(R, child, p, extent, {**case, "rejudged_after_sibling": True}, cls)
                        R.count("sibling_extractions")
            # the very same corner-voxel object is used once more, on the (larger or equal) root image: it still means
            # the box it was built as
            if op == "sub_voxels" and step % 2 == 1:
                lo_r = [max(0, min(int(np.min(pts[:, d])), int(meta["shape"][d]))) for d in range(dim)]
                hi_r = [max(0, min(int(np.max(pts[:, d])), int(meta["shape"][d]))) for d in range(dim)]
                ok4, again = R.guarded("sub_voxels", lambda: root.subregion(va))
                if ok4:
                    exp_blk = root_arr[tuple(slice(lo_r[d], hi_r[d]) for d in range(dim))]
                    R.check(again.img.shape == exp_blk.shape and np.array_equal(again.img, exp_blk), "block_data",
                            lambda: {**case, "what": "corner-voxel object re-used on the root image", "got_shape": list(again.img.shape), "exp_shape": list(exp_blk.shape)}, group="roi_object_reused")
                    R.count("roi_object_reused")
            # physical box == voxel box of its converted corners
            if op == "sub_coords":
                vox_box = cur.coordinatesystem.voxel(ca)
                ok2, twin = R.guarded("sub_voxels_twin", lambda: cur.subregion(darsia.make_voxel(np.asarray(vox_box))))
                if ok2:
                    same = (np.array_equal(twin.img, child.img) and np.array_equal(np.asarray(twin.origin, float), np.asarray(child.origin, float))
                            and list(twin.dimensions) == list(child.dimensions))
                    R.check(same, "physical_equals_voxel_box", lambda: {**case, "voxel_box": np.asarray(vox_box).tolist()})
            # the parent is untouched and the root array never changes
            R.check(np.array_equal(root.img, root_arr), "root_unchanged", case)
            cur = child
        R.sig([dim, payload, series, time_kind, cls.__name__, ops, classes], nontrivial, cls=f"{dim}d/{payload}/{'series' if series else 'single'}/{time_kind}")
        if n < 2:
            R.sample({k: v for k, v in case.items() if k != "known_key"})

    # ============================================================ series assembly
    for n in range(spec["n_series"]):
        if not R.want(["series", n]):
            continue
        rng = rng_for(seed, "C02", shard, 100000 + n)
        dim = int(rng.choice([2, 3]))
        payload = str(rng.choice(["scalar", "vector"]))
        time_kind = ["date", "time", "none"][n % 3]
        how = ["append", "stack"][(n // 3) % 2]
        count = int(rng.integers(2, 6)) if n % 4 else int(rng.integers(3, 6))
        shape = tuple(int(rng.integers(1, 6)) for _ in range(dim))
        dims = [float(10 ** rng.uniform(-1, 1)) for _ in range(dim)]
        origs = []
        for k in range(count):
            im, desc = make_image(rng, dim, shape=shape, payload=payload, series=False, time_kind="none", dimensions=dims, integer_valued=True)
            origs.append(im)
        base = None
        from datetime import datetime
        t0 = datetime(2022, 3, 4, 5, 6, 7)
        dates = [t0 + timedelta(seconds=int(s), microseconds=int(rng.integers(0, 10**6)))
                 for s in np.cumsum(rng.integers(1, int(rng.choice([5000, 400000])), size=count))]
        times = [float(t) for t in np.cumsum(rng.integers(1, 100, size=count))]
        if n % 2 == 0:
            times = [t - times[0] for t in times]  # relative times starting at exactly 0
        offsets = [0.0] + [float(rng.choice([0.0, 0.0, 5.0, 12.5])) for _ in range(count - 1)]
        for k, im in enumerate(origs):
            if time_kind == "date":
                im.date = dates[k]
                im.reference_date = dates[k]
                im.set_time()
            elif time_kind == "time":
                im.time = times[k]
        mixed_dt = None
        if n % 5 == 4:
            # the images of one series hold different data types (the narrower one first, as often as not): the series
            # holds every slab's values exactly, in the common type numpy promotes to
            mixed_dt = [[np.float32, np.float64, np.uint8, np.int16][int(rng.integers(0, 4))] for _ in range(count)]
            if len(set(mixed_dt)) == 1:
                mixed_dt[0] = np.float32 if mixed_dt[0] is not np.float32 else np.float64
            for im, dt_ in zip(origs, mixed_dt):
                im.img = (im.img % 100 + 0.1 * (np.dtype(dt_).kind == "f")).astype(dt_)  # non-integral for the float types
            R.count("series_of_mixed_data_types")
        snap = [(im.img.copy(), im.date, im.time) for im in origs]
        case = {"series": n, "dim": dim, "payload": payload, "time_kind": time_kind, "how": how, "count": count, "shape": list(shape),
                "offsets": offsets if how == "append" else None}
        copies = [im.copy() for im in origs]

        def build():
            if how == "stack":
                return darsia.stack(copies)
            s = copies[0]
            for k in range(1, count):
                if time_kind == "date" and k == count - 1:
                    # a refused request in between: an image dated before the series' last slab is not accepted; the
                    # series stays what it was
                    stale = origs[0].copy()
                    stale.date = dates[0] - timedelta(seconds=5)
                    try:
                        s.append(stale)
                    except Exception:
                        R.count("refused_append_in_between")
                if time_kind == "time":
                    s.append(copies[k], offset=offsets[k])
                else:
                    s.append(copies[k])
            return s

        copies_ref = list(copies)
        ok, ser = R.guarded("assemble_series", build)
        if not ok:
            continue
        # the list handed to stack is the caller's: same length, same objects in the same order afterwards
        R.check(len(copies) == len(copies_ref) and all(x is y for x, y in zip(copies, copies_ref)), "stack_inputs_untouched",
                lambda: {**case, "what": "the list of images itself", "length_before": len(copies_ref), "length_after": len(copies)})
        R.check(ser.series and ser.time_num == count and ser.img.shape[dim] == count, "series_shape", case)
        for k in range(count):
            ok, sl = R.guarded("time_slice_of_stack", lambda: ser.time_slice(k))
            if not ok:
                continue
            if mixed_dt is None:
                R.check(np.array_equal(sl.img, snap[k][0]) and sl.img.dtype == snap[k][0].dtype, "stack_roundtrip", {**case, "k": k, "what": "data"})
            else:
                common = np.result_type(*mixed_dt)
                R.check(sl.img.dtype == common and np.array_equal(sl.img, snap[k][0].astype(common)), "stack_roundtrip",
                        lambda: {**case, "k": k, "what": "data of a series of mixed data types", "dtypes": [np.dtype(d).name for d in mixed_dt], "slice_dtype": sl.img.dtype.name,
                                 "max_diff": float(np.max(np.abs(sl.img.astype(float) - snap[k][0].astype(float))))}, group="mixed_dtypes")
            R.check(sl.date == snap[k][1], "stack_roundtrip", {**case, "k": k, "what": "date", "got": str(sl.date), "expected": str(snap[k][1])})
            if time_kind == "date":
                exp_t = (dates[k] - dates[0]).total_seconds()
            elif time_kind == "time":
                exp_t = times[k] + (offsets[k] if how == "append" else 0.0)
            else:
                exp_t = None
            R.check(sl.time == exp_t, "stack_roundtrip_time", {**case, "k": k, "got": sl.time, "expected": exp_t},
                    key="C02:stack_drops_relative_times" if (how == "stack" and time_kind == "time" and sl.time is None) else None)
            R.check(np.allclose(np.asarray(sl.origin, float), np.asarray(origs[k].origin, float), rtol=0, atol=0) and list(sl.dimensions) == list(origs[k].dimensions),
                    "stack_roundtrip", {**case, "k": k, "what": "geometry"})
        R.sig(["series", dim, payload, time_kind, how, count], True, cls=f"assembly/{how}/{time_kind}")
        if n < 1:
            R.sample(case)
        # ---- second generation: slices of the assembled series (from index k0 >= 1 on) are stacked again and
        # re-sliced; they must come back with the data, dates and relative times they had as slices
        if ok and count >= 3:
            k0 = int(rng.integers(1, count - 1))
            gen = []
            okg = True
            for k in range(k0, count):
                okk, slk = R.guarded("time_slice_of_stack", lambda: ser.time_slice(k))
                okg &= okk
                gen.append(slk)
            if okg:
                snap2 = [(g.img.copy(), g.date, g.time) for g in gen]
                how2 = ["stack", "append"][n % 2]

                def rebuild():
                    cp = [g.copy() for g in gen]
                    if how2 == "stack":
                        return darsia.stack(cp)
                    s2 = cp[0]
                    for g in cp[1:]:
                        s2.append(g, offset=0.0) if time_kind == "time" else s2.append(g)
                    return s2

                ok2, ser2 = R.guarded("assemble_series", rebuild)
                if ok2:
                    for j in range(len(gen)):
                        okj, slj = R.guarded("time_slice_of_stack", lambda: ser2.time_slice(j))
                        if okj:
                            R.check(np.array_equal(slj.img, snap2[j][0]) and slj.date == snap2[j][1], "stack_roundtrip", {**case, "generation": 2, "k0": k0, "j": j, "what": "data/date"})
                            R.check(slj.time == snap2[j][2], "stack_roundtrip_time", {**case, "generation": 2, "how2": how2, "k0": k0, "j": j, "got": slj.time, "expected": snap2[j][2]})
                    R.sig(["series-gen2", dim, payload, time_kind, how2, count, k0], True, cls=f"assembly2/{how2}/{time_kind}")
        # ---- the assembled series is itself the first entry of a stack, followed by single-time images: the result
        # holds all slabs in order, and the series that went in still is what it was (data, stamps, slices)
        if ok and n % 2 == 1:
            extra = [origs[k].copy() for k in range(int(rng.integers(1, min(3, count) + 1)))]
            if time_kind == "date":
                for k, e in enumerate(extra):
                    e.date = dates[-1] + timedelta(seconds=10 * (k + 1))  # append requires increasing dates
            esnap = [(e.img.copy(), e.date, e.time) for e in extra]
            in_snap = (ser.img.copy(), list(ser.date) if isinstance(ser.date, list) else ser.date, list(ser.time) if isinstance(ser.time, list) else ser.time)
            ok3, big = R.guarded("assemble_series", lambda: darsia.stack([ser] + extra))
            if ok3:
                R.check(big.time_num == count + len(extra) and big.img.shape[dim] == count + len(extra), "series_shape", {**case, "what": "stack([series, singles...])"})
                for j in range(count + len(extra)):
                    okj, slj = R.guarded("time_slice_of_stack", lambda: big.time_slice(j))
                    if okj:
                        e_img, e_date = (snap[j][0], snap[j][1]) if j < count else (esnap[j - count][0], esnap[j - count][1])
                        R.check(np.array_equal(slj.img, e_img) and slj.date == e_date, "stack_roundtrip", {**case, "what": "stack([series, singles...]) data/date", "j": j})
                now = (ser.img, list(ser.date) if isinstance(ser.date, list) else ser.date, list(ser.time) if isinstance(ser.time, list) else ser.time)
                R.check(np.array_equal(now[0], in_snap[0]) and now[1] == in_snap[1] and now[2] == in_snap[2] and ser.time_num == count, "stack_inputs_untouched",
                        lambda: {**case, "dates_before": len(in_snap[1]) if isinstance(in_snap[1], list) else None, "dates_after": len(now[1]) if isinstance(now[1], list) else None,
                                 "times_before": in_snap[2], "times_after": now[2]})
                okl, last = R.guarded("time_slice_of_stack", lambda: ser.time_slice(count - 1))
                if okl:
                    R.check(np.array_equal(last.img, snap[count - 1][0]) and last.date == snap[count - 1][1], "stack_inputs_untouched", {**case, "what": "last slice of the series that went in"})
                for e, k in zip(extra, range(len(extra))):
                    R.check(np.array_equal(e.img, esnap[k][0]) and e.date == esnap[k][1] and e.time == esnap[k][2], "stack_inputs_untouched", {**case, "what": "single image that went in", "k": k})


MANIFEST = {
    "technique": "boundary monitors with a provenance map (shadow state) on subregion/time_slice/time_interval/append/stack; independent block model; ambient C01 coordinate contracts",
    "level_text": "Thousands of random nested extraction programs (up to four steps, any order) on random 2-D/3-D roots of every payload and time kind are executed; after every step the returned image is judged against the untouched root copy through a provenance map: bitwise block content, coordinates of its corner voxels versus the root's at v+offset, voxel size, per-slice dates and times, kind and payload layout, and physical box == voxel box. Series assembled by append/stack from 2-5 images are re-sliced and compared with snapshots of the originals.",
    "level_note": "Sampled programs and inputs; empty selections and negative strides are outside the property (time intervals with strides 2 and 3 are generated); append's offset semantics follows the implementation's documented-in-code reading (own time plus offset).",
    "design_ref": "DESIGN.md section 3, C02",
}
