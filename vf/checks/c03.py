"""C03 - geometric integration is the weighted voxel sum at any resolution and history.

Monitors: boundary wrapper on ``Geometry.integrate`` / ``.normalize`` logging
every call to a JSONL history {seq, geometry id, resolution letter, data digest,
result digest}; (a) a stateless reference model (math.fsum over native voxels)
judges every call when it returns - any dependence on earlier calls shows up as
a mismatch on the call where it manifests; (b) an offline checker over the
recorded history verifies that equal (geometry, data) events have equal results
and that each history's last call equals the same call on a fresh object.
"""

from __future__ import annotations

import itertools
import math

import numpy as np

LEVEL = "exploration"
EXHAUSTIVE = {"quick": False, "thorough": True}
RULE = (
    "geometry configs = {plain, weighted, extruded, porous, extruded-porous} x dim 1..3 x weight kind (float, "
    "ndarray, Image where accepted) x constructor form (dimensions | voxel_size) x data kind (array | Image; scalar, "
    "vector, series, vector-valued series); call sequences over the alphabet {native, coarser, finer, other-coarser} (integer factors 2..4 "
    "per axis): quick = all 84 sequences of length <= 3 plus 200 sampled of length 4..5, thorough = all 1364 of "
    "length <= 5, each run on 3 (quick) / 6 (thorough) rotating configs; each sequence runs on one object and is compared call by call with the "
    "stateless model and, for its last call, with a fresh object. Array-weighted geometries outside 2-D only see "
    "native data (resizing is documented as unsupported there). distinct = (class, dim, weight kind, data kind, "
    "sequence); non-trivial = sequence contains a resolution change"
)
TOLERANCES = {"integral vs model": "1e-12 * sum|terms| (1e-6 * sum|terms| when an array volume is resized: OpenCV's INTER_AREA weights are float32)", "linearity": "1e-12 * sum|terms|", "fresh object": "bitwise", "normalize": "1e-12 relative"}
ASSUMPTIONS = [
    "a field given on a coarser grid is constant on each coarse cell; on a finer grid the native effective volume is uniform inside a native voxel",
    "coarser/finer means all axes coarsened resp. refined by integer factors (no mixed directions in one call)",
]
FLOORS = {
    "quick": {"callers_containers_overwritten": 150, "normalize_float32_images": 100, "payload_rank_drop": 150, "integral_matches_model": 3000, "history_independent": 800, "linearity": 250, "normalize_equalises": 250, "offline:same_call_same_result": 2000},
    "thorough": {"callers_containers_overwritten": 1500, "normalize_float32_images": 1000, "payload_rank_drop": 1500, "integral_matches_model": 30000, "history_independent": 8000, "linearity": 2500, "normalize_equalises": 2500, "offline:same_call_same_result": 20000},
}
LETTERS = ["native", "coarser", "finer", "other"]


def all_sequences(maxlen):
    out = []
    for L in range(1, maxlen + 1):
        out += [list(s) for s in itertools.product(range(4), repeat=L)]
    return out


def shards(tier, seed):
    k = 16
    seqs = all_sequences(3 if tier == "quick" else 5)
    if tier == "quick":
        rng = np.random.default_rng([seed, 3, 999])
        longer = [list(rng.integers(0, 4, size=int(rng.integers(4, 6)))) for _ in range(200)]
        seqs += [[int(x) for x in s] for s in longer]
    reps = 3 if tier == "quick" else 6
    seqs = [s for s in seqs for _ in range(reps)]  # each sequence on several configurations
    return [{"shard": i, "nshards": k, "seqs": seqs[i::k], "first": i, "event_log": True} for i in range(k)]


# ------------------------------------------------------------------ model
def model_volume(spec):
    """Native effective voxel volume as an array of shape num_voxels."""
    h = spec["voxel_size"]
    V = np.full(spec["shape"], float(np.prod(h)))
    for w in spec["weights"]:
        V = V * (w if np.ndim(w) == 0 else np.asarray(w, float))
    return V


def model_integral(spec, data, factors_kind):
    """Sum over native voxels of field x effective volume, per trailing index (fsum)."""
    V = model_volume(spec)
    shape = spec["shape"]
    dim = len(shape)
    dshape = data.shape[:dim]
    trailing = data.shape[dim:]
    out = np.zeros(trailing if trailing else ())
    absout = np.zeros(trailing if trailing else ())
    # volume at data resolution
    if tuple(dshape) == tuple(shape):
        Vd = V
    elif any(d < s for s, d in zip(shape, dshape)) and any(d > s for s, d in zip(shape, dshape)):
        # integer factors per axis, some axes coarser and some finer: aggregate blocks along the coarser axes, split
        # uniformly along the finer ones
        Vd = V
        for ax, (s_, d_) in enumerate(zip(shape, dshape)):
            if d_ < s_:
                ff = s_ // d_
                Vd = np.add.reduce(Vd.reshape(Vd.shape[:ax] + (d_, ff) + Vd.shape[ax + 1:]), axis=ax + 1)
            elif d_ > s_:
                ff = d_ // s_
                Vd = np.repeat(Vd, ff, axis=ax) / ff
    elif all(s % d == 0 for s, d in zip(shape, dshape)) and all(d <= s for s, d in zip(shape, dshape)):
        f = [s // d for s, d in zip(shape, dshape)]  # coarser: aggregate blocks
        Vd = np.zeros(dshape)
        for idx in itertools.product(*[range(d) for d in dshape]):
            blk = tuple(slice(i * ff, (i + 1) * ff) for i, ff in zip(idx, f))
            Vd[idx] = math.fsum(V[blk].ravel())
    else:
        f = [d // s for s, d in zip(shape, dshape)]  # finer: split uniformly
        Vd = np.zeros(dshape)
        share = float(np.prod(f))
        for idx in itertools.product(*[range(d) for d in dshape]):
            Vd[idx] = V[tuple(i // ff for i, ff in zip(idx, f))] / share
    flatV = Vd.reshape(-1)
    flatD = data.reshape((flatV.size,) + tuple(trailing))
    if trailing:
        for t in itertools.product(*[range(n) for n in trailing]):
            col = flatD[(slice(None),) + t].astype(float)
            out[t] = math.fsum((col * flatV).tolist())
            absout[t] = math.fsum(np.abs(col * flatV).tolist())
    else:
        out = math.fsum((flatD.astype(float) * flatV).tolist())
        absout = math.fsum(np.abs(flatD.astype(float) * flatV).tolist())
    return np.asarray(out), np.asarray(absout)


# --------------------------------------------------------------- configs
def make_config(rng, darsia, idx):
    """One geometry configuration: constructor closure + model spec + description."""
    klass = ["plain", "weighted", "extruded", "porous", "extruded_porous"][idx % 5]
    dim = [2, 2, 1, 3, 2, 2][(idx // 5) % 6]
    wkind = ["float", "ndarray", "image"][(idx // 30) % 3] if klass != "plain" else "none"
    form = ["dimensions", "voxel_size"][(idx // 7) % 2]
    dkind = ["array", "image"][(idx // 3) % 2]
    payload = ["scalar", "vector", "series", "series_vector", "scalar"][(idx // 11) % 5]
    base = {1: [12], 2: [4, 6], 3: [2, 4, 2]}[dim]
    shape = [int(b * rng.integers(1, 3)) for b in base]
    # voxel sizes from sub-millimetre (lab images in metres) to tens of units
    h = [float(10 ** rng.uniform(-1.5, 1.5)) for _ in range(dim)] if idx % 3 else [float(10 ** rng.uniform(-4.0, -2.0)) for _ in range(dim)]
    dims = [shape[d] * h[d] for d in range(dim)]
    geo_kw = dict(space_dim=dim, num_voxels=list(shape))
    if form == "dimensions":
        geo_kw["dimensions"] = list(dims)
        h = [dims[d] / shape[d] for d in range(dim)]
    else:
        geo_kw["voxel_size"] = list(h)

    def mk_weight(kind):
        if kind == "float":
            return float(rng.uniform(0.1, 2.0)), None
        arr = rng.uniform(0.1, 2.0, size=shape)
        if dim > 1 and idx % 4 == 1:
            # a weight that depends on the position along the last axis only (e.g. a depth map of a tilted plate):
            # all rows / slabs are identical
            arr = np.broadcast_to(rng.uniform(0.1, 2.0, size=shape[-1:]), shape).copy()
        if kind == "image":
            return arr, darsia.Image(arr.copy(), space_dim=dim, dimensions=list(dims), scalar=True)
        return arr, None

    weights = []
    if klass == "plain":
        ctor = lambda own=None: darsia.Geometry(**{**geo_kw, **(own or {})})
    elif klass == "extruded_porous":
        pk = wkind
        dk = ["float", "ndarray", "image"][(idx // 13) % 3]
        pa, pi = mk_weight(pk)
        da, di = mk_weight(dk)
        weights = [pa, da]
        pobj = pi if pi is not None else (pa.copy() if isinstance(pa, np.ndarray) else pa)
        dobj = di if di is not None else (da.copy() if isinstance(da, np.ndarray) else da)
        if idx % 6 == 3 and isinstance(pa, np.ndarray) and isinstance(da, np.ndarray):
            # both weights as 8-bit integer maps (counts of pores per voxel, depth in millimetres): their product is the
            # product of the numbers
            pa = rng.integers(1, 21, size=shape).astype(float)
            da = rng.integers(1, 21, size=shape).astype(float)
            weights = [pa, da]
            pobj = pa.astype(np.uint8) if pi is None else darsia.Image(pa.astype(np.uint8), space_dim=dim, dimensions=list(dims), scalar=True)
            dobj = da.astype(np.uint8) if di is None else darsia.Image(da.astype(np.uint8), space_dim=dim, dimensions=list(dims), scalar=True)
            wkind_suffix = ":uint8"
        else:
            wkind_suffix = ""
        ctor = lambda own=None: darsia.ExtrudedPorousGeometry(porosity=pobj, depth=dobj, **{**geo_kw, **(own or {})})
        wkind = f"{pk}+{dk}" + wkind_suffix
    else:
        if wkind == "image":
            wkind = "ndarray"  # only ExtrudedPorousGeometry documents Image weights
        wa, _ = mk_weight(wkind)
        weights = [wa]
        wobj = wa.copy() if isinstance(wa, np.ndarray) else wa
        C = {"weighted": (darsia.WeightedGeometry, "weight"), "extruded": (darsia.ExtrudedGeometry, "expansion"),
             "porous": (darsia.PorousGeometry, "porosity")}[klass]
        ctor = lambda own=None: C[0](**{C[1]: wobj}, **{**geo_kw, **(own or {})})
    array_weight = any(isinstance(w, np.ndarray) for w in weights)
    spec = {"shape": tuple(shape), "voxel_size": h, "weights": weights}
    desc = {"class": klass, "dim": dim, "weight_kind": wkind, "ctor_form": form, "data_kind": dkind, "payload": payload, "shape": shape}
    spec["geo_kw"] = geo_kw
    return ctor, spec, desc, array_weight


def make_data(rng, darsia, spec, desc, letter, cache):
    """Data at the resolution named by ``letter`` (cached per config so that the same
    letter means the same data within a history)."""
    if letter in cache:
        return cache[letter]
    shape = spec["shape"]
    dim = len(shape)
    if letter == 0:
        dshape = tuple(shape)
    elif letter == 2:
        f = [int(rng.integers(2, 4)) for _ in range(dim)]
        dshape = tuple(s * ff for s, ff in zip(shape, f))
    else:
        divs = lambda s: [d for d in (2, 3, 4) if s % d == 0] or [1]
        for _ in range(20):
            f = [int(rng.choice(divs(s))) for s in shape]
            dshape = tuple(s // ff for s, ff in zip(shape, f))
            if letter == 3 and dim >= 2 and rng.random() < 0.5:
                # "other": integer factors per axis, at least one axis finer and one coarser than the geometry's own
                ax_f = int(rng.integers(0, dim))
                dshape = tuple(shape[a] * int(rng.integers(2, 4)) if a == ax_f else dshape[a] for a in range(dim))
                if not any(dshape[a] < shape[a] for a in range(dim)):
                    continue
            if letter == 1 or 1 not in cache or dshape != cache[1][2]:
                break
    trailing = {"scalar": (), "vector": (3,), "series": (4,), "series_vector": (4, 3)}[desc["payload"]]
    arr = rng.standard_normal(dshape + trailing)
    if desc["data_kind"] == "image":
        h = spec["voxel_size"]
        obj = darsia.Image(arr.copy(), space_dim=dim, dimensions=[shape[d] * h[d] for d in range(dim)],
                           scalar=desc["payload"] in ("scalar", "series"), series=desc["payload"].startswith("series"),
                           time=[float(t) for t in range(4)] if desc["payload"].startswith("series") else None)
    else:
        obj = arr.copy()
    cache[letter] = (obj, arr, dshape)
    return cache[letter]


def run_shard(spec_, R):
    import darsia

    from vf.events import digest
    from vf.gen.images import rng_for

    history = []  # in-memory copy of the event log for the offline checker

    def log(geom_id, letter, arr, result):
        ev = R.event("integrate", geom=geom_id, res=LETTERS[letter], data=digest(arr), result=digest(np.asarray(result)))
        history.append(ev)

    seqs = spec_["seqs"]
    prev_live = None
    for si, seq in enumerate(seqs):
        if not R.want(["seq", si]):
            continue
        cfg_idx = spec_["first"] + si * spec_["nshards"] + 7 * (si % 5)
        rng = rng_for(spec_["seed"], "C03", spec_["shard"], si)
        ctor, spec, desc, array_weight = make_config(rng, darsia, cfg_idx)
        dim = desc["dim"]
        resize_ok = (not array_weight) or dim == 2
        if not resize_ok:
            seq = [0 for _ in seq]  # documented: array volumes can only be resized in 2-D
        case = {"config": desc, "sequence": [LETTERS[x] for x in seq]}
        grp = f"{desc['class']}/{desc['dim']}d/{desc['weight_kind']}/{desc['payload']}"
        # every third geometry is built from containers the caller keeps and overwrites after the first integration:
        # the voxel counts as an integer array, the dimensions / voxel sizes as a list
        own = None
        if cfg_idx % 3 == 1:
            own = {k_: (np.array(v_) if k_ == "num_voxels" else list(v_)) for k_, v_ in spec["geo_kw"].items() if k_ in ("num_voxels", "dimensions", "voxel_size")}
            desc["callers_containers"] = "overwritten after the first call"
        ok, geom = R.guarded("geometry_constructible", (lambda: ctor(own)) if own is not None else ctor)
        if not ok:
            continue
        gid = f"s{spec_['shard']}g{si}"
        cache = {}
        last = None
        for pos, letter in enumerate(seq):
            if (not resize_ok) and pos == len(seq) - 1 and len(seq) > 1:
                # a refused request in between (array volumes can only be resized in 2-D): the geometry stays usable
                try:
                    geom.integrate(make_data(rng, darsia, spec, desc, 1, {})[0])
                except Exception:
                    R.count("refused_request_in_between")
            obj, arr, dshape = make_data(rng, darsia, spec, desc, letter, cache)
            key = None
            if array_weight and desc["payload"] != "scalar":
                key = "C03:array_volume_not_broadcast_over_trailing_axes"
            ok, res = R.guarded("integrate", lambda: geom.integrate(obj), key=lambda e, w: key)
            if not ok:
                last = None
                break
            log(gid, letter, arr, res)
            if own is not None and pos == 0:
                own["num_voxels"] //= 2
                for k_ in ("dimensions", "voxel_size"):
                    if k_ in own:
                        own[k_][0] *= 3.0
                R.count("callers_containers_overwritten")
            exp, mag = model_integral(spec, arr, letter)
            res_a = np.asarray(res, float)
            # resized array volumes go through cv2.resize(INTER_AREA), whose area weights are float32
            rtol = 1e-6 if (array_weight and letter != 0) else 1e-12
            good = res_a.shape == exp.shape and bool(np.all(np.abs(res_a - exp) <= rtol * np.maximum(mag, 1e-300)))
            stale = (not array_weight) and letter == 0 and any(x != 0 for x in seq[:pos])
            R.check(good, "integral_matches_model",
                    lambda: {**case, "position": pos, "got": res_a.tolist() if res_a.size < 5 else str(res_a.shape), "expected": exp.tolist() if exp.size < 5 else str(exp.shape)},
                    key="C03:scalar_volume_cache_stale_after_resized_call" if (stale and not good) else key, group=grp)
            last = (letter, obj, arr, res_a)
        # the payload rank drops: after series / vector data, scalar data at the resolution of the last call
        if last is not None and desc["payload"] != "scalar":
            dshape_l = cache[last[0]][2]
            arr_s = rng.standard_normal(dshape_l)
            if desc["data_kind"] == "image":
                hv = spec["voxel_size"]
                obj_s = darsia.Image(arr_s.copy(), space_dim=dim, dimensions=[spec["shape"][d] * hv[d] for d in range(dim)], scalar=True)
            else:
                obj_s = arr_s.copy()
            ok, res_s = R.guarded("integrate", lambda: geom.integrate(obj_s))
            if ok:
                exp_s, mag_s = model_integral(spec, arr_s, last[0])
                rs = np.asarray(res_s, float)
                rtol = 1e-6 if (array_weight and last[0] != 0) else 1e-12
                R.check(rs.shape == exp_s.shape and bool(np.all(np.abs(rs - exp_s) <= rtol * np.maximum(mag_s, 1e-300))), "integral_matches_model",
                        lambda: {**case, "what": "scalar data after " + desc["payload"] + " data at the same resolution", "got": rs.tolist() if rs.size < 5 else str(rs.shape),
                                 "expected": exp_s.tolist() if exp_s.size < 5 else str(exp_s.shape)}, group=grp + "/rank_drop")
                R.count("payload_rank_drop")
        # last call on a fresh object
        if last is not None:
            ok, g2 = R.guarded("geometry_constructible", ctor)
            if ok:
                ok, r2 = R.guarded("integrate", lambda: g2.integrate(last[1]))
                if ok:
                    log(gid + "fresh", last[0], last[2], r2)
                    stale = (not array_weight) and last[0] == 0 and any(x != 0 for x in seq[:-1])
                    R.check(np.array_equal(np.asarray(r2, float), last[3]), "history_independent",
                            lambda: {**case, "after_history": last[3].tolist() if last[3].size < 5 else "array", "fresh": np.asarray(r2).tolist() if np.size(r2) < 5 else "array"},
                            key="C03:scalar_volume_cache_stale_after_resized_call" if stale else None, group=grp)
        # two live geometry objects: the geometry of the previous sequence repeats its last call after this one was
        # built and used (nothing is shared between geometry objects)
        if prev_live is not None:
            okp, rp = R.guarded("integrate", lambda: prev_live[0].integrate(prev_live[1]))
            if okp:
                R.check(np.array_equal(np.asarray(rp, float), prev_live[2]), "history_independent",
                        lambda: {**prev_live[3], "what": "repeated after another geometry object was built and used", "other": desc}, group="two_live_objects")
                R.count("two_live_geometries")
        prev_live = (geom, last[1], last[3], case) if last is not None else None
        R.sig([desc["class"], dim, desc["weight_kind"], desc["data_kind"], desc["payload"], seq], nontrivial=any(x != 0 for x in seq),
              cls=grp)
        if si < 2:
            R.sample(case)

        # ---- linearity and normalisation on fresh objects (no history involved)
        if si % 3 == 0:
            ok, g3 = R.guarded("geometry_constructible", ctor)
            if ok and not (array_weight and desc["payload"] != "scalar" and False):
                x = rng.standard_normal(tuple(spec["shape"]) + {"scalar": (), "vector": (3,), "series": (4,), "series_vector": (4, 3)}[desc["payload"]])
                y = rng.standard_normal(x.shape)
                a, b = float(rng.uniform(-2, 2)), float(rng.uniform(-2, 2))
                key = "C03:array_volume_not_broadcast_over_trailing_axes" if (array_weight and desc["payload"] != "scalar") else None
                ok, vals = R.guarded("integrate", lambda: (g3.integrate(a * x + b * y), g3.integrate(x), g3.integrate(y)), key=lambda e, w: key)
                if ok:
                    _, mx = model_integral(spec, x, 0)
                    _, my = model_integral(spec, y, 0)
                    lhs = np.asarray(vals[0], float)
                    rhs = a * np.asarray(vals[1], float) + b * np.asarray(vals[2], float)
                    R.check(bool(np.all(np.abs(lhs - rhs) <= 1e-12 * (abs(a) * mx + abs(b) * my + 1e-300))), "linearity", {**case, "a": a, "b": b}, group=grp)
                # normalisation (Images, positive data so that the ratio is well conditioned)
                if True:
                    h = spec["voxel_size"]
                    kw = dict(space_dim=dim, dimensions=[spec["shape"][d] * h[d] for d in range(dim)], scalar=desc["payload"] in ("scalar", "series"),
                              series=desc["payload"].startswith("series"))
                    if desc["payload"].startswith("series"):
                        kw["time"] = [0.0, 1.0, 2.0, 3.0]
                    f32 = si % 2 == 1  # single-precision images every second time
                    im = darsia.Image((np.abs(x) + 0.5).astype(np.float32 if f32 else np.float64), **kw)
                    kw2 = dict(kw)
                    kw2["dimensions"] = list(kw["dimensions"])
                    if desc["payload"].startswith("series"):
                        kw2["time"] = [0.0, 1.0, 2.0, 3.0]
                    ref = darsia.Image((np.abs(y) + 0.5).astype(np.float32 if f32 else np.float64), **kw2)
                    if f32:
                        R.count("normalize_float32_images")
                    ok, nrm = R.guarded("normalize", lambda: g3.normalize(im, ref), key=lambda e, w: key)
                    if ok:
                        ok, pair = R.guarded("integrate", lambda: (g3.integrate(nrm), g3.integrate(ref)), key=lambda e, w: key)
                        if ok:
                            p0, p1 = np.asarray(pair[0], float), np.asarray(pair[1], float)
                            R.check(bool(np.all(np.abs(p0 - p1) <= (1e-5 if f32 else 1e-12) * np.abs(p1))), "normalize_equalises",
                                    lambda: {**case, "normalised": p0.tolist() if p0.size < 5 else "array", "reference": p1.tolist() if p1.size < 5 else "array"}, group=grp)
                        # the same geometry and the same reference image object, whose content has changed in the meantime
                        ref.img[...] = ref.img * np.asarray(1.0 + 0.03 * rng.random(), ref.img.dtype)
                        ok, nrm2 = R.guarded("normalize", lambda: g3.normalize(im, ref), key=lambda e, w: key)
                        if ok:
                            ok, pair2 = R.guarded("integrate", lambda: (g3.integrate(nrm2), g3.integrate(ref)), key=lambda e, w: key)
                            if ok:
                                q0, q1 = np.asarray(pair2[0], float), np.asarray(pair2[1], float)
                                R.check(bool(np.all(np.abs(q0 - q1) <= (1e-5 if f32 else 1e-12) * np.abs(q1))), "normalize_equalises",
                                        lambda: {**case, "what": "reference image modified in place between two normalisations", "normalised": q0.tolist() if q0.size < 5 else "array",
                                                 "reference": q1.tolist() if q1.size < 5 else "array"}, group=grp + "/reference_changed")

                        # integer-typed images (counts) with a series / vector payload: the normalised image has the
                        # reference's integrals (the library returns a float image there)
                        if desc["payload"] != "scalar" and si % 2 == 0:
                            imi = darsia.Image((np.abs(x) * 40 + 3).astype([np.uint8, np.uint16, np.int32][si % 3]), **{**kw, "dimensions": list(kw["dimensions"])})
                            oki, nrmi = R.guarded("normalize", lambda: g3.normalize(imi, ref), key=lambda e, w: key, unsupported=(TypeError,))
                            if oki:
                                oki, pairi = R.guarded("integrate", lambda: (g3.integrate(nrmi), g3.integrate(ref)), key=lambda e, w: key)
                                if oki:
                                    r0, r1 = np.asarray(pairi[0], float), np.asarray(pairi[1], float)
                                    R.check(bool(np.all(np.abs(r0 - r1) <= 1e-5 * np.abs(r1))), "normalize_equalises",
                                            lambda: {**case, "what": "integer-typed image", "image_dtype": imi.img.dtype.name, "result_dtype": nrmi.img.dtype.name,
                                                     "normalised": r0.tolist() if r0.size < 5 else "array", "reference": r1.tolist() if r1.size < 5 else "array"}, group=grp + "/integer_image")
                                    R.count("normalize_integer_images")

    # ---------------------------------------------------------- offline checker
    # sequential specification "a call is a function of (geometry, data)": events with the
    # same geometry configuration and data digest must carry the same result digest.
    seen = {}
    for ev in history:
        gkey = (ev["geom"].replace("fresh", ""), ev["data"])
        if gkey in seen:
            R.check(seen[gkey]["result"] == ev["result"], "offline:same_call_same_result",
                    {"first_event": seen[gkey], "later_event": ev},
                    key="C03:scalar_volume_cache_stale_after_resized_call" if ev["res"] == "native" or seen[gkey]["res"] == "native" else None,
                    group=ev["geom"])
        else:
            seen[gkey] = ev


MANIFEST = {
    "technique": "boundary monitor on Geometry.integrate/normalize with a JSONL call history; stateless fsum reference model evaluated per call; offline history checker (same call => same result; last call vs fresh object); exhaustive call sequences (thorough)",
    "level_text": "Every integrate() call of every call sequence over {native, coarser, finer, other-coarser} (all 1364 sequences of length <= 5 in the thorough tier; all of length <= 3 plus 200 longer ones in quick) is judged against a stateless reference model, so a result that depends on earlier calls is caught on the call where it shows; the recorded history is additionally checked offline against the sequential specification 'a call is a function of (geometry, data)' and the last call of each history against a fresh object. Linearity and normalisation are judged on fresh objects for every third configuration.",
    "level_note": "Configurations (5 geometry classes x 1-3-D x weight/data kinds) rotate over the sequences rather than forming a full product; mixed refine/coarsen directions in one call are not generated.",
    "design_ref": "DESIGN.md section 3, C03",
}
