"""C15 - every quadrature rule is exact to its nominal degree.

Monitor: icontract postconditions on the real ``darsia.quadrature`` functions
(``gauss``, ``gauss_reference_cell``, ``reference_cell_corners``); the workload
enumerates every (dimension, order) the API accepts.  The oracle integrates
every monomial of per-variable degree <= 2n-1 against its exact rational value.
"""

from __future__ import annotations

import itertools
from fractions import Fraction

import numpy as np

LEVEL = "exploration"
EXHAUSTIVE = {"quick": True, "thorough": True}
RULE = (
    "enumerates every (function, dim in 1..3, order in 0..6 and 'max') of darsia.quadrature; orders the API "
    "rejects with NotImplementedError are 'unsupported'. A case is (function, dim, order, monomial exponents); "
    "non-trivial = a monomial/structural clause actually evaluated on a returned rule; distinct by that tuple."
)
TOLERANCES = {"monomial": "1e-13 * max(1, measure)", "sum_weights": "1e-13 * measure"}
ASSUMPTIONS = [
    "n points per direction is order+1 (the library's orders 0..4 are the 1..5 point Gauss-Legendre rules)",
    "exact integrals are computed in rationals: int_{-1}^{1} x^k = 2/(k+1) for even k, 0 for odd k; int_0^1 x^k = 1/(k+1)",
]
FLOORS = {"quick": {"rule_returned": 100, "monomial_exact": 1500}, "thorough": {"rule_returned": 100, "monomial_exact": 1500}}
ORDERS = [0, 1, 2, 3, 4, 5, 6, "max"]


def shards(tier, seed):
    return [{"shard": 0}, {"shard": 1, "repo_tests": ["tests/unit/test_variational_wasserstein_distance.py"]}]


def exact(exps, ref: bool) -> Fraction:
    v = Fraction(1)
    for k in exps:
        if ref:
            v *= Fraction(1, k + 1)
        else:
            v *= Fraction(2, k + 1) if k % 2 == 0 else 0
    return v


def known_key(fn, dim, order, clause):
    """Mechanism keys of the defects found on the pinned tree (now fixed; kept so a
    regression is reported under the same name)."""
    return None


def judge_rule(R, fn, dim, order, pts, w, ref: bool, n: int | None):
    """Oracle for one returned rule. n = points per direction (None for corners)."""
    case = {"fn": fn, "dim": dim, "order": order}
    grp = f"{fn}/{dim}/{order}"
    pts = np.asarray(pts, dtype=float)
    w = np.asarray(w, dtype=float)
    R.count("rule_returned")
    if pts.size == 0:
        P = np.zeros((0, dim))  # an empty point set is a point set (of the wrong length)
    else:
        P = pts.reshape(len(pts), -1) if pts.ndim > 0 else pts.reshape(1, 1)
    measure = 1.0 if ref else 2.0**dim
    ok = R.check(len(P) == len(w), "len_points_eq_len_weights", {**case, "n_pts": len(P), "n_w": len(w)})
    R.sig([fn, dim, order, "len"])
    if not ok:
        return
    R.check(P.shape[1] == dim, "point_dimension", {**case, "shape": list(P.shape)})
    R.check(bool(np.all(w > 0)), "weights_positive", {**case, "min_w": float(w.min())})
    R.check(
        abs(float(np.sum(w)) - measure) <= 1e-13 * measure,
        "weights_sum_to_measure",
        {**case, "sum": float(np.sum(w)), "measure": measure},
    )
    lo, hi = (0.0, 1.0) if ref else (-1.0, 1.0)
    R.check(bool(np.all(P >= lo - 1e-15) and np.all(P <= hi + 1e-15)), "points_inside_cell", case)
    R.sig([fn, dim, order, "structure"])
    if n is not None:
        R.check(len(P) == n**dim, "tensor_point_count", {**case, "n_pts": len(P), "expected": n**dim})
        degs = range(0, 2 * n)
    else:
        degs = range(0, 2)  # corner rule: multilinear
    for exps in itertools.product(degs, repeat=dim):
        val = float(np.sum(w * np.prod(P ** np.array(exps, dtype=float), axis=1)))
        ex = float(exact(exps, ref))
        good = abs(val - ex) <= 1e-13 * max(1.0, measure)
        R.check(good, "monomial_exact", {**case, "exponents": list(exps), "got": val, "exact": ex}, group=grp)
        R.sig([fn, dim, order, list(exps)])
    R.sample({**case, "n_points": len(P), "sum_w": float(np.sum(w)), "monomials": len(list(degs)) ** dim})


def run_shard(spec, R):
    import darsia
    import icontract

    from vf.attach import attach_post

    q = darsia.quadrature

    # ambient contracts on the real functions: each call is judged when it returns
    def post_gauss(dim, order, result):
        n = {"max": {1: 5, 2: 4, 3: 3}.get(dim)}.get(order, order + 1 if isinstance(order, int) else None)
        judge_rule(R, "gauss", dim, order, result[0], result[1], False, n)
        return True

    def post_ref(dim, order, result):
        n = {"max": {1: 5, 2: 4, 3: 3}.get(dim)}.get(order, order + 1 if isinstance(order, int) else None)
        judge_rule(R, "gauss_reference_cell", dim, order, result[0], result[1], True, n)
        return True

    def post_corners(dim, result):
        judge_rule(R, "reference_cell_corners", dim, "corners", result[0], result[1], True, None)
        # corners are exactly the 2^dim vertices
        C = np.asarray(result[0], dtype=float).reshape(len(result[0]), -1)
        verts = {tuple(v) for v in itertools.product([0.0, 1.0], repeat=dim)}
        R.check({tuple(c) for c in C} == verts and len(C) == 2**dim, "corners_are_vertices", {"dim": dim})
        return True

    attach_post(q, "gauss", post_gauss, R)
    attach_post(q, "gauss_reference_cell", post_ref, R)
    attach_post(q, "reference_cell_corners", post_corners, R)

    if spec.get("repo_tests"):
        from vf.ambient import run_repo_tests

        return run_repo_tests(R, spec["repo_tests"])
    for dim in (1, 2, 3):
        for order in ORDERS:
            # call history per key: [-1,1]^d rule, unit-cell rule, then both again in the other order (a rule must
            # not depend on which rules were requested before); every call is judged by its contract
            for fn in ("gauss", "gauss_reference_cell", "gauss_reference_cell", "gauss", "gauss_reference_cell"):
                if not R.want([fn, dim, order]):
                    continue
                R.guarded(
                    "returns_rule",
                    lambda: getattr(q, fn)(dim, order),
                    unsupported=(NotImplementedError,),
                )
        for order in ORDERS:  # and once more in reverse order of requests
            for fn in ("gauss_reference_cell", "gauss"):
                if R.want([fn, dim, order]):
                    R.guarded("returns_rule", lambda: getattr(q, fn)(dim, order), unsupported=(NotImplementedError,))
        if R.want(["reference_cell_corners", dim, "corners"]):
            R.guarded("returns_rule", lambda: q.reference_cell_corners(dim), unsupported=(NotImplementedError,))
    R.count("contract_evaluations", R.counters.get("rule_returned", 0))

MANIFEST = {
    "technique": "icontract postconditions on the real quadrature functions; exhaustive enumeration of accepted (dim, order); exact-rational monomial oracle",
    "level_text": "Every rule the API returns is executed and judged by a postcondition (count, positivity, sum of weights, all monomials of per-variable degree <= 2n-1 against exact rationals). The configuration space is finite and enumerated completely, so this is exhaustive observation of the property's whole quantifier.",
    "level_note": "Trusts numpy float arithmetic for the 1e-13 comparison and that n = order+1 points per direction is the nominal size of each rule.",
    "design_ref": "DESIGN.md section 3, C15",
}
