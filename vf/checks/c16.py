"""C16 - solvers and regularisers carry no hidden state between calls.

Each *history* (a list of up to four parameterised operations) is executed in
its own fresh interpreter (vf.c16_runner), which logs the full result digest of
every call at the client boundary.  Offline checker over the recorded
histories: sequential specification "a call is a function of its own
arguments", i.e. the digest of an operation at any position of any history must
equal the digest of the same operation issued first in a fresh interpreter.
"""

from __future__ import annotations

import itertools
import json
import os
import subprocess

import numpy as np

from vf.c16_runner import GROUPS, LETTERS

LEVEL = "exploration"
EXHAUSTIVE = {"quick": False, "thorough": False}
RULE = (
    "alphabet of 82 parameterised operations (Jacobi with different h / coefficients on one object, MG with scalar and "
    "array coefficients, H1 regularisation with the default, an explicit Jacobi and an explicit MG solver, different mu / "
    "omega / shapes / RGB, split-Bregman TVD default / explicit solver / ell, tvd front-end, Anderson sequences crossing "
    "restart boundaries, Newton / Bregman / adaptive-Bregman objects with direct, AMG and CG back-ends (with and without "
    "Anderson) on successive input pairs). quick: every operation alone (twice, determinism check), all ordered pairs "
    "inside each state-sharing group (objects or the library's default solver instance), 120 sampled cross-group pairs and "
    "100 sampled histories of length 3..4; thorough: all 4761 ordered pairs, all ordered triples inside groups and 1500 "
    "sampled histories of length 3..4. distinct = history; non-trivial = history has >= 2 calls"
)
TOLERANCES = {"result digests": "bitwise (sha1 of dtype, shape and bytes of the full result array); single-threaded BLAS, PYTHONHASHSEED=0"}
ASSUMPTIONS = [
    "an operation that is not reproducible alone (two fresh interpreters disagree) is excluded as non-deterministic, not judged",
    "exceptions are results too (their type and message are compared)",
]
FLOORS = {
    "quick": {"history_executed": 450, "call_equals_fresh_call": 850, "alone_reproducible": 82},
    "thorough": {"history_executed": 4000, "call_equals_fresh_call": 10000, "alone_reproducible": 82},
}
SHARD_TIMEOUT = {"quick": 1500, "thorough": 10000}

KNOWN = {
    # (operation judged, earlier operation in the same history) -> mechanism key
}


def group_of(letter):
    for g, ls in GROUPS.items():
        if letter in ls:
            return g
    return None


def histories(tier, seed):
    rng = np.random.default_rng([seed, 16])
    H = []
    for g, ls in GROUPS.items():
        H += [list(p) for p in itertools.product(ls, repeat=2)]
    if tier == "quick":
        seen = {tuple(h) for h in H}
        while len(H) < sum(len(v) ** 2 for v in GROUPS.values()) + 120:
            a, b = rng.choice(LETTERS, size=2)
            if (a, b) not in seen and group_of(a) != group_of(b):
                seen.add((a, b))
                H.append([str(a), str(b)])
        n_long = 100
    else:
        seen = {tuple(h) for h in H}
        for a, b in itertools.product(LETTERS, repeat=2):
            if (a, b) not in seen:
                H.append([a, b])
        for g, ls in GROUPS.items():
            if len(ls) <= 4:
                H += [list(p) for p in itertools.product(ls, repeat=3)]
        n_long = 1500
    for _ in range(n_long):
        L = int(rng.integers(3, 5))
        g = list(GROUPS)[int(rng.integers(0, len(GROUPS)))]
        pool = GROUPS[g] if rng.random() < 0.7 else LETTERS
        h = [str(rng.choice(pool)) for _ in range(L)]
        if rng.random() < 0.5:
            h[int(rng.integers(0, L))] = str(rng.choice(LETTERS))
        H.append(h)
    return H


def shards(tier, seed):
    H = histories(tier, seed)
    alone = [[l] for l in LETTERS] * 2
    k = 16
    allh = [{"h": h, "alone": True} for h in alone] + [{"h": h, "alone": False} for h in H]
    for i, x in enumerate(allh):
        x["id"] = i
    return [{"shard": i, "items": allh[i::k]} for i in range(k)]


def run_history(hist, run_dir, tag):
    """Run one history in a pristine process image.

    The shard worker has imported darsia (and nothing else of it has been called); each
    history runs in a fork()ed child of that image, i.e. in an interpreter whose state is
    exactly the state right after ``import darsia`` - a fresh interpreter without paying the
    3.5 s import per history.  (VERIF_C16_SPAWN=1 switches to a real ``python -m`` child.)"""
    if os.environ.get("VERIF_C16_SPAWN") == "1":
        path = os.path.join(run_dir, f"hist-{tag}.json")
        with open(path, "w") as f:
            json.dump([hist], f)
        cp = subprocess.run([os.environ.get("VERIF_PYTHON", "/venv/bin/python"), "-B", "-m", "vf.c16_runner", path], env=dict(os.environ),
                            capture_output=True, text=True, timeout=600)
        events = [json.loads(line[len("C16EVENT "):]) for line in cp.stdout.splitlines() if line.startswith("C16EVENT ")]
        return events, cp.returncode, cp.stderr[-500:]
    import signal
    import sys

    out_path = os.path.join(run_dir, f"hist-{tag}.out")
    sys.stdout.flush()
    pid = os.fork()
    if pid == 0:  # child: pristine copy of the freshly imported interpreter
        code = 1
        try:
            signal.alarm(600)
            import random as _random

            import darsia

            # a fresh interpreter seeds its global generators from the operating system; the forked copy must not
            # inherit the parent's generator state instead
            np.random.seed(None)
            _random.seed()

            from vf import c16_runner
            from vf.events import digest

            A = c16_runner.build_alphabet(darsia)
            with open(out_path, "w") as f:
                for pos, letter in enumerate(hist):
                    try:
                        res = A[letter]()
                        arr = res.img if hasattr(res, "img") else np.asarray(res)
                        rec = {"pos": pos, "op": letter, "digest": digest(arr), "shape": list(arr.shape), "finite": bool(np.all(np.isfinite(arr)))}
                    except Exception as e:
                        rec = {"pos": pos, "op": letter, "digest": f"EXC:{type(e).__name__}:{str(e)[:80]}", "shape": None, "finite": False}
                    f.write(json.dumps(rec) + "\n")
            code = 0
        finally:
            os._exit(code)
    _, status = os.waitpid(pid, 0)
    rc = os.waitstatus_to_exitcode(status)
    events = []
    if os.path.exists(out_path):
        events = [json.loads(x) for x in open(out_path).read().splitlines() if x.strip()]
        os.remove(out_path)
    return events, rc, ""


FINALIZE = True


def run_shard(spec, R):
    if spec.get("finalize"):
        return finalize(spec, R, os.environ.get("VERIF_RUN_DIR", "."))
    # this worker only orchestrates fresh interpreters and writes their boundary logs; the
    # judgement happens in finalize() over all logs (offline checker)
    run_dir = os.environ.get("VERIF_RUN_DIR", ".")
    out = []
    for it in spec["items"]:
        if not R.want(["history", it["id"]]):
            continue
        try:
            ev, rc, err = run_history(it["h"], run_dir, f"{spec['shard']}-{it['id']}")
        except subprocess.TimeoutExpired:
            R.skip("history_timeout")
            continue
        if rc != 0 or len(ev) != len(it["h"]):
            R.violation("history_executed", {"history": it["h"], "rc": rc, "stderr": err, "events": len(ev)})
            continue
        R.count("history_executed")
        out.append({"id": it["id"], "h": it["h"], "alone": it["alone"], "events": ev})
        for e in ev:
            R.event("call", history=it["id"], operation=e["op"], pos=e["pos"], digest=e["digest"])
    with open(os.path.join(run_dir, f"c16-log-{spec['shard']}.json"), "w") as f:
        json.dump(out, f)


def known_key(op, earlier):
    g = group_of(op)
    prev_same_group = [e for e in earlier if group_of(e) == g]
    if g == "jacobi" and prev_same_group:
        return "C16:jacobi_caches_diagonal"
    if g in ("default_solver", "h1_explicit", "sb_explicit") and prev_same_group:
        return "C16:jacobi_caches_diagonal"  # the cached diagonal of the (default / explicit) Jacobi instance
    if g in ("mg", "h1_mg") and prev_same_group:
        return "C16:jacobi_caches_diagonal"  # MG's smoother is a Jacobi instance updated through update_params
    if g == "mg_het" and prev_same_group:
        return "C16:heterogeneous_mg_degrades_own_coefficients"
    # pyamg's multilevel set-up (more than ~100 unknowns) draws its test vectors from numpy's global generator, so an
    # AMG / AMG-preconditioned solve depends on how many such set-ups (or re-seedings) happened before in the process
    RNG_USERS = ("w_bregman_amg_multilevel_A", "w_bregman_amg_multilevel_B", "w_newton_cg_multilevel_A", "w_bregman_amg_custom")
    if op in RNG_USERS[:3] and any(e in RNG_USERS for e in earlier):
        return "C16:amg_setup_draws_from_global_rng"
    return None


def finalize(spec, R, run_dir):
    """Offline checker over the boundary logs of all shards."""
    import glob

    logs = glob.glob(os.path.join(run_dir, "c16-log-*.json"))
    items = []
    for p in logs:
        items += json.load(open(p))
    ref = {}
    nondet = set()
    for it in items:
        if it["alone"]:
            e = it["events"][0]
            if e["op"] in ref and ref[e["op"]] != e["digest"]:
                nondet.add(e["op"])
            ref.setdefault(e["op"], e["digest"])
    for op in ref:
        if op in nondet:
            # the same call, issued first in two fresh processes, gave two different results
            R.check(False, "alone_reproducible", {"op": op, "what": "results of the same first call differ between fresh processes"},
                    key="C16:amg_setup_draws_from_global_rng" if op in ("w_bregman_amg_multilevel_A", "w_bregman_amg_multilevel_B", "w_newton_cg_multilevel_A") else None, group=op)
        else:
            R.ok("alone_reproducible")
    for it in items:
        if it["alone"]:
            continue
        h = it["h"]
        bad_seen = False
        for e in it["events"]:
            op = e["op"]
            if op in nondet or op not in ref:
                R.skip("unjudged:nondeterministic_or_missing_reference")
                continue
            earlier = h[: e["pos"]]
            good = e["digest"] == ref[op]
            R.check(good, "call_equals_fresh_call",
                    lambda: {"history": h, "position": e["pos"], "op": op, "digest_in_history": e["digest"], "digest_alone": ref[op]},
                    key=lambda: known_key(op, earlier), group=f"{op}|{','.join(sorted(set(earlier)))[:60]}", )
        R.sig(h, nontrivial=len(h) >= 2, cls=f"len{len(h)}/{group_of(h[-1])}")
        if it["id"] % 97 == 0:
            R.sample({"history": h, "events": it["events"]})


MANIFEST = {
    "technique": "offline history checker over boundary logs recorded in one fresh interpreter per call history; sequential specification 'a call is a function of its own arguments' (bitwise result digests)",
    "level_text": "Each call history over an alphabet of 82 parameterised operations runs in its own fresh interpreter, which logs the full digest of every returned array; the offline checker requires every call, at every position of every history, to equal the same call issued alone in a fresh interpreter (reference runs are made twice to establish determinism). quick covers all ordered pairs inside every state-sharing group plus sampled cross-group pairs and longer histories; thorough all 6724 ordered pairs, in-group triples and 1500 longer histories.",
    "level_note": "Bitwise comparison presumes single-threaded BLAS and fixed hash seed (set by the harness); histories longer than two calls are sampled; the alphabet fixes the parameter values that are contrasted.",
    "design_ref": "DESIGN.md section 3, C16",
}
