"""C14 - signal-to-data models obey their defining algebra.

Monitors: boundary monitors on the model classes' ``__call__`` and
``update_model_parameters`` and on the kernels' ``linear_combination`` /
``PolynomialApproximationSpace.basis``; each returned array is judged by the
defining algebra evaluated by the monitor (bounds, idempotence, affinity,
sequential composition, expected parameter routing, per-label agreement with
the homogeneous model, strict-inequality masks, kernel sums, polynomial span).
"""

from __future__ import annotations

import itertools

import numpy as np

LEVEL = "exploration"
EXHAUSTIVE = {"quick": False, "thorough": False}
RULE = (
    "random signals (1-D pixel lists, 2-D and 3-D arrays, Images), random parameters; label maps with 1..5 labels and "
    "arbitrary (non-contiguous) label values; every non-empty subset of updatable parameters of Clip / Scaling / Linear "
    "models and of a CombinedModel of 2..3 parts (dofs given as (position, name) pairs); Gaussian and linear (shifted and "
    "unshifted) kernels with 1..4 distinct supports whose kernel matrix has condition <= 1e3, signals of 1, 2 and 3 array "
    "dimensions, also after a kernel update on the same interpolation object; polynomial degrees 0..4 visited in ascending, descending and random order on fresh and on kept spaces. The kernel cases "
    "are budgeted by count (numba re-compiles per call): quick 64, thorough 640. distinct = (model family, configuration); "
    "non-trivial = parameters differ from the defaults / more than one label or support"
)
TOLERANCES = {
    "clip / linear / combined / threshold algebra": "exact or 1e-12 relative (float64 arithmetic)",
    "kernel interpolation at supports and numba path vs plain sum": "1e-3 * max(1, |values|) (float32 inside)",
    "polynomial span": "mutual least-squares residual <= 1e-9 relative",
}
ASSUMPTIONS = [
    "a CombinedModel's flat parameter vector is consumed in model order, one entry per addressed parameter (sub-models define the order of their own parameters)",
    "CombinedModel dofs are (position, parameter name) pairs as annotated in its signature; a name may also be a list of names of that sub-model, consuming one value per name",
    "a HeterogeneousLinearModel applied at another resolution uses the nearest-neighbour (cv2.INTER_NEAREST) resampling of its original label map",
]
FLOORS = {
    "quick": {"two_live_objects": 400, "combined_called_with_mask": 80, "identity_model_reparametrised": 300, "parameter_buffer_reused": 150, "labelwise_wrapper_integer_signals": 200, "heterogeneous_update_history": 300, "labelwise_wrapper": 200, "clip": 300, "linear": 300, "combined_composition": 100, "combined_routing": 300, "heterogeneous_linear": 80, "heterogeneous_resolution_history": 100, "combined_routing_grouped": 100, "threshold": 150, "threshold_integer_signals": 500, "kernel_reproduces_values": 60, "kernel_values_updated": 100, "kernel_supports_replaced": 25, "heterogeneous_integer_signals": 150, "combined_with_labelwise_part": 150, "linear_models_on_images": 150, "threshold_3d_label_maps": 100, "combined_vector_valued_dof": 80, "kernel_advanced_updated": 15,
              "kernel_numba_equals_plain_sum": 150, "kernel_signals_on_8bit_scale": 8, "polynomial_span": 100},
    "thorough": {"two_live_objects": 4000, "combined_called_with_mask": 800, "identity_model_reparametrised": 3000, "parameter_buffer_reused": 1500, "labelwise_wrapper_integer_signals": 2000, "heterogeneous_update_history": 3000, "labelwise_wrapper": 2000, "clip": 3000, "linear": 3000, "combined_composition": 1000, "combined_routing": 3000, "heterogeneous_linear": 800, "heterogeneous_resolution_history": 1000, "combined_routing_grouped": 1000, "threshold": 1500, "threshold_integer_signals": 5000, "kernel_reproduces_values": 600, "kernel_values_updated": 1000, "kernel_supports_replaced": 250, "heterogeneous_integer_signals": 1500, "combined_with_labelwise_part": 1500, "linear_models_on_images": 1500, "threshold_3d_label_maps": 1000, "combined_vector_valued_dof": 800, "kernel_advanced_updated": 150,
                 "kernel_numba_equals_plain_sum": 1500, "kernel_signals_on_8bit_scale": 80, "polynomial_span": 100},
}
SHARD_TIMEOUT = {"quick": 1500, "thorough": 7200}


def shards(tier, seed):
    k = 16
    n = 6 if tier == "quick" else 60
    kern = 64 if tier == "quick" else 640
    return [{"shard": i, "n": n, "kernel_cases": kern // k + (1 if i < kern % k else 0), "poly": i == 0} for i in range(k)]


def signals(rng, darsia):
    out = [("pixels1d", rng.uniform(-1, 2, size=int(rng.integers(1, 30)))), ("array2d", rng.uniform(-1, 2, size=(int(rng.integers(1, 9)), int(rng.integers(1, 9))))),
           ("array3d", rng.uniform(-1, 2, size=(int(rng.integers(1, 6)), int(rng.integers(1, 6)), int(rng.integers(1, 4)))))]
    shp = (int(rng.integers(2, 8)), int(rng.integers(2, 8)))
    out.append(("image", darsia.Image(rng.uniform(-1, 2, size=shp), space_dim=2, dimensions=[1.0, 2.0], scalar=True)))
    return out


def arr_of(x):
    return x.img if hasattr(x, "img") else x


def run_shard(spec, R):
    import darsia

    from vf.gen.images import rng_for

    for n in range(spec["n"]):
        if not R.want(["case", n]):
            continue
        rng = rng_for(spec["seed"], "C14", spec["shard"], n)

        # ================================================================ clip
        for name, sig in signals(rng, darsia):
            lo = float(rng.uniform(-0.5, 0.8))
            hi = None if rng.random() < 0.25 else float(lo + rng.uniform(0.0, 1.2))
            m = darsia.ClipModel(**({"min value": lo} if hi is None else {"min value": lo, "max value": hi}))
            case = {"model": "ClipModel", "signal": name, "min": lo, "max": hi}
            clip_before = arr_of(sig).copy()
            ok, out = R.guarded("clip", lambda: m(sig))
            if ok:
                R.check(np.array_equal(arr_of(sig), clip_before), "signal_untouched", case, group="ClipModel")
                a, o = arr_of(sig), arr_of(out)
                good = type(out) is type(sig) and o.shape == a.shape and bool(np.all(o >= lo)) and (hi is None or bool(np.all(o <= hi)))
                inside = (a >= lo) & ((a <= hi) if hi is not None else True)
                good &= bool(np.all(o[inside] == a[inside])) and bool(np.all(o[a < lo] == lo)) and (hi is None or bool(np.all(o[a > hi] == hi)))
                again = m(out)
                good &= np.array_equal(arr_of(again), o)
                R.check(good, "clip", case)
            # parameter subsets
            for dofs, params in (("all", [0.1, 0.6]), (None, [0.2, 0.7]), (["min_value"], [0.3]), (["max_value"], [0.9]), (["min_value", "max_value"], [0.05, 0.5]),
                                 (["max_value", "min_value"], [0.15, 0.55]), (["min_value"], [0.0]), (["max_value"], [0.0]), ("all", [0.0, 0.0]), (None, [-0.5, 0.0])):
                m2 = darsia.ClipModel(**{"min value": -9.0, "max value": 9.0})
                ok, _ = R.guarded("clip", lambda: m2.update_model_parameters(np.array(params), dofs))
                if ok:
                    exp = {"all": (params[0], params[-1]), None: (params[0], params[-1])}.get(dofs if not isinstance(dofs, list) else "x")
                    if exp is None:
                        exp = (params[0] if "min_value" in dofs and len(dofs) == 1 else (-9.0 if "min_value" not in dofs else params[0]),
                               params[0] if dofs == ["max_value"] else (9.0 if "max_value" not in dofs else params[1]))
                    x = np.linspace(-10, 10, 41)
                    R.check(np.array_equal(m2(x), np.clip(x, exp[0], exp[1])), "clip", {"model": "ClipModel", "dofs": dofs, "params": params, "expected_bounds": list(exp)})
            R.sig(["clip", name, hi is None], True, cls="clip")

        # ==================================================== scaling / linear
        for name, sig in signals(rng, darsia):
            if name == "image":
                # Images are signals too: the result is an image of the same kind holding the model applied to the data
                s_i, o_i = float(rng.uniform(0.5, 2)), float(rng.uniform(-1, 1))
                for label_i, m_i, f_i in (("ScalingModel", darsia.ScalingModel(scaling=s_i), lambda a: s_i * a), ("LinearModel", darsia.LinearModel(scaling=s_i, offset=o_i), lambda a: s_i * a + o_i)):
                    before_i = sig.img.copy()
                    ok_i, out_i = R.guarded("linear", lambda: m_i(sig), key=lambda e, w: "C14:linear_model_rejects_images" if label_i == "LinearModel" else None)
                    if ok_i:
                        R.check(isinstance(out_i, darsia.Image) and np.allclose(out_i.img, f_i(before_i), rtol=1e-14, atol=1e-14) and np.array_equal(sig.img, before_i), "linear",
                                {"model": label_i, "signal": "image", "scaling": s_i, "offset": o_i}, key="C14:linear_model_rejects_images" if label_i == "LinearModel" else None, group=label_i + "/image")
                        R.count("linear_models_on_images")
                continue
            s, o = float(rng.uniform(-2, 2)), float(rng.uniform(-1, 1))
            if (n + len(name)) % 3 == 0:
                s = 1.0  # unit scaling (the default) together with a non-zero offset
            for label, m, fs, fo in (("ScalingModel", darsia.ScalingModel(scaling=s), s, 0.0), ("LinearModel", darsia.LinearModel(scaling=s, offset=o), s, o)):
                case = {"model": label, "signal": name, "scaling": s, "offset": o}
                y = rng.uniform(-1, 2, size=sig.shape)
                a = float(rng.uniform(-1, 2))
                sig0, y0 = sig.copy(), y.copy()
                ok, vals = R.guarded("linear", lambda: (m(sig), m(y), m(a * sig + (1 - a) * y)))
                if ok:
                    R.check(np.array_equal(sig, sig0) and np.array_equal(y, y0), "signal_untouched", case, group=label)
                    sig, y = sig0, y0  # later clauses are judged on the signal as generated
                    sc = float(np.max(np.abs(sig)) + np.max(np.abs(y)) + 1) * (abs(fs) + 1)
                    good = np.allclose(vals[0], fs * sig + fo, rtol=0, atol=1e-12 * sc)
                    good &= np.allclose(vals[2], a * vals[0] + (1 - a) * vals[1], rtol=0, atol=1e-12 * sc * (abs(a) + 1))
                    R.check(bool(good), "linear", case)
            # models that start out as the identity (default parameters), are used, re-parametrised and used again
            if name != "image":
                for label_d, m_d, upd_d, f_d in (("ScalingModel", darsia.ScalingModel(), [2.5], lambda a_: 2.5 * a_), ("LinearModel", darsia.LinearModel(), [1.5, -0.25], lambda a_: 1.5 * a_ - 0.25),
                                                 ("ScalingModel", darsia.ScalingModel(scaling=1.0), [0.5], lambda a_: 0.5 * a_)):
                    okd, firstd = R.guarded("linear", lambda: m_d(sig.copy()))
                    if okd:
                        okd, _d = R.guarded("linear", lambda: m_d.update_model_parameters(np.array(upd_d), None))
                    if okd:
                        okd, secd = R.guarded("linear", lambda: m_d(sig.copy()))
                    if okd:
                        R.check(np.allclose(np.asarray(firstd, float), sig, rtol=1e-14, atol=1e-14) and np.allclose(np.asarray(secd, float), f_d(sig), rtol=1e-14, atol=1e-14), "linear",
                                {"model": label_d, "signal": name, "what": "default (identity) model used, re-parametrised, used again", "new_parameters": upd_d}, group=label_d + "/identity_then_update")
                        R.count("identity_model_reparametrised")
            # parameter routing of the linear model
            for dofs, params, exp in ((None, [1.5, 0.25], (1.5, 0.25)), (["scaling"], [3.0], (3.0, 7.0)), (["offset"], [0.5], (2.0, 0.5)), (["offset", "scaling"], [4.0, 0.75], (4.0, 0.75)),
                                      # the documented spelling of "every parameter"
                                      ("all", [1.25, -0.5], (1.25, -0.5)),
                                      # parameters that are exactly zero are values like any other
                                      (["offset"], [0.0], (2.0, 0.0)), (["scaling"], [0.0], (0.0, 7.0)), (None, [0.0, 0.0], (0.0, 0.0)), (["scaling", "offset"], [0.0, -1.0], (0.0, -1.0))):
                m3 = darsia.LinearModel(scaling=2.0, offset=7.0)
                ok, _ = R.guarded("linear", lambda: m3.update_model_parameters(np.array(params), dofs))
                if ok:
                    x = np.linspace(-1, 1, 7)
                    R.check(np.allclose(m3(x), exp[0] * x + exp[1], rtol=1e-14, atol=1e-14), "linear", {"model": "LinearModel", "dofs": dofs, "params": params, "expected": list(exp)})
            R.sig(["linear", name], True, cls="linear")

        # ============================== two live objects of one class (nothing is shared between instances)
        xs = rng.uniform(-1, 2, size=(4, 5))
        pa, pb = rng.uniform(0.2, 0.9, size=4), rng.uniform(1.1, 2.0, size=4)
        pairs = [
            ("ClipModel", lambda p: darsia.ClipModel(**{"min value": float(p[0] - 0.2), "max value": float(p[0] + p[1])}), lambda p, x: np.clip(x, p[0] - 0.2, p[0] + p[1])),
            ("ScalingModel", lambda p: darsia.ScalingModel(scaling=float(p[0])), lambda p, x: p[0] * x),
            ("LinearModel", lambda p: darsia.LinearModel(scaling=float(p[0]), offset=float(p[1])), lambda p, x: p[0] * x + p[1]),
            ("StaticThresholdModel", lambda p: darsia.StaticThresholdModel(float(p[0] - 0.2), float(p[0] + p[1])), lambda p, x: (x > p[0] - 0.2) & (x < p[0] + p[1])),
            ("CombinedModel", lambda p: darsia.CombinedModel([darsia.LinearModel(scaling=float(p[0]), offset=float(p[1])), darsia.ClipModel(**{"min value": 0.0, "max value": float(p[2] + 1)})]),
             lambda p, x: np.clip(p[0] * x + p[1], 0.0, p[2] + 1)),
        ]
        for label, make, ref in pairs:
            ok, objs = R.guarded("two_live_objects", lambda: (make(pa), make(pb)))
            if not ok:
                continue
            oa, ob = objs
            if label in ("ScalingModel", "LinearModel"):
                ob.update_model_parameters(np.array([3.0, 0.5])[: ob.num_parameters if hasattr(ob, "num_parameters") else 1], None)  # the second object is re-parametrised
                refb = (lambda x: 3.0 * x) if label == "ScalingModel" else (lambda x: 3.0 * x + 0.5)
            else:
                refb = lambda x: ref(pb, x)  # noqa: E731
            ok, vals = R.guarded("two_live_objects", lambda: (oa(xs.copy()), ob(xs.copy()), oa(xs.copy())))
            if ok:
                ea, eb = ref(pa, xs), refb(xs)
                good = all(np.allclose(np.asarray(v, float), np.asarray(e, float), rtol=1e-14, atol=1e-14) for v, e in ((vals[0], ea), (vals[1], eb), (vals[2], ea)))
                R.check(bool(good), "two_live_objects", {"model": label, "params_first": pa.tolist(), "params_second": pb.tolist()}, group=label)

        # ============================== the generic label-wise wrapper: one copy of a model per label, each
        # parametrised on its own, agrees on every region with the homogeneous model of that region
        hshape = (int(rng.integers(3, 8)), int(rng.integers(3, 8)))
        hvals = [int(v) for v in rng.choice(9, size=int(rng.integers(1, 6)), replace=False)]
        hlab = np.array(hvals)[rng.integers(0, len(hvals), size=hshape)]
        hlab.flat[: len(hvals)] = hvals
        hlab_img = darsia.Image(hlab.astype(np.uint8), space_dim=2, dimensions=[1.0, 2.0], scalar=True)
        hsig = rng.uniform(-1, 2, size=hshape)
        wrappers = [
            ("LinearModel", lambda: darsia.LinearModel(), lambda p: np.array([p[0], p[1]]), lambda p, x: p[0] * x + p[1]),
            ("ClipModel", lambda: darsia.ClipModel(), lambda p: np.array([p[1] - 1.0, p[1] + p[0]]), lambda p, x: np.clip(x, p[1] - 1.0, p[1] + p[0])),
            ("CombinedModel[Linear,Clip]", lambda: darsia.CombinedModel([darsia.LinearModel(), darsia.ClipModel()]), lambda p: np.array([p[0], p[1], -0.25, p[2] + 1.0]),
             lambda p, x: np.clip(p[0] * x + p[1], -0.25, p[2] + 1.0)),
            ("CombinedModel[Scaling,Linear]", lambda: darsia.CombinedModel([darsia.ScalingModel(), darsia.LinearModel()]), lambda p: np.array([p[0], p[2], p[1]]),
             lambda p, x: p[2] * (p[0] * x) + p[1]),
        ]
        for wlabel, wmake, wvec, wref in wrappers:
            case = {"model": "HeterogeneousModel(" + wlabel + ")", "labels": hvals, "shape": list(hshape)}
            ok, H = R.guarded("labelwise_wrapper", lambda: darsia.HeterogeneousModel(wmake(), hlab_img))
            if not ok:
                continue
            hp = {lv: rng.uniform(0.3, 1.7, size=3) for lv in hvals}
            order = [hvals[i] for i in rng.permutation(len(hvals))]

            def para():
                for lv in order:
                    H[lv].update_model_parameters(wvec(hp[lv]).copy(), None)
                return H(hsig.copy())

            ok, out = R.guarded("labelwise_wrapper", para)
            if ok and len(hvals) > 1:
                # requests that end early in between (a signal the models refuse; somebody looks at the first mask only):
                # the next complete evaluation is right
                try:
                    H("no signal")
                except Exception:
                    pass
                try:
                    next(iter(H.masks))
                except Exception:
                    pass
                ok_e, out_e = R.guarded("labelwise_wrapper", lambda: H(hsig.copy()))
                if ok_e:
                    R.check(np.array_equal(np.asarray(out_e), np.asarray(out)), "labelwise_wrapper", {**case, "what": "evaluation after requests that ended early"}, group=wlabel + "/after_early_exit")
                    R.count("labelwise_wrapper_after_early_exit")
            if ok:
                # integer-typed signals (counts) are signals like any other: same models, same regions
                isig = rng.integers(0, 200, size=hshape).astype([np.uint8, np.uint16, np.int32][n % 3])
                oki, outi = R.guarded("labelwise_wrapper", lambda: H(isig.copy()))
                if oki:
                    expi = np.zeros(hshape)
                    for lv in hvals:
                        expi[hlab == lv] = wref(hp[lv], isig.astype(float))[hlab == lv]
                    R.check(np.shape(outi) == hshape and np.allclose(np.asarray(outi, float), expi, rtol=1e-12, atol=1e-12), "labelwise_wrapper",
                            lambda: {**case, "what": "integer-typed signal", "signal_dtype": isig.dtype.name, "result_dtype": np.asarray(outi).dtype.name,
                                     "max_deviation": float(np.max(np.abs(np.asarray(outi, float) - expi))) if np.shape(outi) == hshape else None}, group=wlabel + "/integer_signal")
                    R.count("labelwise_wrapper_integer_signals")
                out = np.asarray(out)
                exp = np.zeros(hshape)
                for lv in hvals:
                    exp[hlab == lv] = wref(hp[lv], hsig)[hlab == lv]
                R.check(out.shape == hshape and np.allclose(out, exp, rtol=1e-13, atol=1e-13), "labelwise_wrapper",
                        {**case, "update_order": order, "parameters": {str(k): v.tolist() for k, v in hp.items()},
                         "max_deviation": float(np.max(np.abs(out - exp))) if out.shape == hshape else None}, group=wlabel)
        R.sig(["labelwise_wrapper", len(hvals)], len(hvals) > 1, cls="labelwise_wrapper")

        # a combined model that ends in a thresholding model is called with the mask that model takes
        xm = rng.uniform(-1, 2, size=(6, 7))
        mk = rng.random((6, 7)) < 0.6
        lin_m, clip_m, thr_m = darsia.LinearModel(scaling=1.3, offset=0.1), darsia.ClipModel(**{"min value": 0.0, "max value": 1.5}), darsia.StaticThresholdModel(0.2, 1.2)
        okm, outm = R.guarded("combined_composition", lambda: darsia.CombinedModel([lin_m, clip_m, thr_m])(xm.copy(), mk.copy()))
        if okm:
            expm = thr_m(clip_m(lin_m(xm.copy())), mk.copy())
            R.check(np.array_equal(np.asarray(outm), np.asarray(expm)) and not bool(np.any(np.asarray(outm)[~mk])), "combined_composition",
                    {"model": "CombinedModel", "parts": ["LinearModel", "ClipModel", "StaticThresholdModel"], "what": "called with a mask", "outside_mask_reported": int(np.sum(np.asarray(outm)[~mk]))}, group="with_mask")
            R.count("combined_called_with_mask")
        # ============================================================ combined
        parts_pool = [
            ("LinearModel", lambda: darsia.LinearModel(scaling=float(rng.uniform(0.5, 2)), offset=float(rng.uniform(-0.3, 0.3))), ["scaling", "offset"]),
            ("ClipModel", lambda: darsia.ClipModel(**{"min value": 0.1, "max value": 0.9}), ["min_value", "max_value"]),
            ("ScalingModel", lambda: darsia.ScalingModel(scaling=float(rng.uniform(0.5, 2))), ["scaling"]),
        ]
        for rep in range(3):
            idx = [int(i) for i in rng.choice(3, size=int(rng.integers(2, 4)))]
            parts = [parts_pool[i][1]() for i in idx]
            names = [parts_pool[i][0] for i in idx]
            dof_names = [parts_pool[i][2] for i in idx]
            cm = darsia.CombinedModel(parts)
            x = rng.uniform(-1, 2, size=(5, 6))
            case = {"model": "CombinedModel", "parts": names}
            ok, out = R.guarded("combined_composition", lambda: cm(x))
            if ok:
                seq = x.copy()
                for p in parts:
                    seq = p(seq)
                R.check(np.array_equal(out, seq), "combined_composition", case)
                R.check(cm.num_parameters == sum(len(d) for d in dof_names), "combined_composition", {**case, "num_parameters": cm.num_parameters})
            # all parameters, in order
            total = sum(len(d) for d in dof_names)
            pv = rng.uniform(0.2, 1.5, size=total)
            pv.sort()  # keeps min <= max for clip parts
            ok, _ = R.guarded("combined_routing", lambda: cm.update_model_parameters(pv.copy(), None))
            if ok:
                ref_parts = [parts_pool[i][1]() for i in idx]
                off = 0
                for rp, dn in zip(ref_parts, dof_names):
                    rp.update_model_parameters(pv[off : off + len(dn)], None)
                    off += len(dn)
                seq = x.copy()
                for p in ref_parts:
                    seq = p(seq)
                R.check(np.array_equal(cm(x), seq), "combined_routing", {**case, "dofs": "all", "parameters": pv.tolist()})
            # every non-empty subset of updatable parameters (capped)
            all_dofs = [(pos, nm) for pos, dn in enumerate(dof_names) for nm in dn]
            subsets = [list(s) for r in range(1, len(all_dofs) + 1) for s in itertools.combinations(all_dofs, r)]
            if len(subsets) > 12:
                subsets = [subsets[i] for i in rng.choice(len(subsets), size=12, replace=False)]
            for sub in subsets:
                parts2 = [parts_pool[i][1]() for i in idx]
                ref2 = [type(p).__new__(type(p)) for p in parts2]
                for r2, p2 in zip(ref2, parts2):
                    r2.__dict__.update(p2.__dict__)
                cm2 = darsia.CombinedModel(parts2)
                vals = np.sort(rng.uniform(0.2, 1.5, size=len(sub)))
                ok, _ = R.guarded("combined_routing", lambda: cm2.update_model_parameters(vals.copy(), [(p, nm) for p, nm in sub]),
                                  key=lambda e, w: "C14:combined_model_subset_routing_unusable")
                if ok:
                    for v, (pos, nm) in zip(vals, sub):
                        ref2[pos].update_model_parameters(np.array([v]), [nm])
                    seq = x.copy()
                    for p in ref2:
                        seq = p(seq)
                    R.check(np.array_equal(cm2(x), seq), "combined_routing", {**case, "dofs": [list(t) for t in sub], "parameters": vals.tolist()},
                            key="C14:combined_model_subset_routing_unusable")
                # the same subset with the parameters of one sub-model grouped into one entry (position, [names]);
                # each entry consumes as many values as it names
                grouped = []
                for pos, nm in sub:
                    if grouped and grouped[-1][0] == pos and rng.random() < 0.8:
                        grouped[-1][1].append(nm)
                    else:
                        grouped.append((pos, [nm]))
                if len(grouped) < len(sub):
                    parts3 = [parts_pool[i][1]() for i in idx]
                    ref3 = [type(p).__new__(type(p)) for p in parts3]
                    for r3, p3 in zip(ref3, parts3):
                        r3.__dict__.update(p3.__dict__)
                    cm3 = darsia.CombinedModel(parts3)
                    gd = [(pos, nms[0] if len(nms) == 1 and rng.random() < 0.5 else list(nms)) for pos, nms in grouped]
                    ok, _ = R.guarded("combined_routing", lambda: cm3.update_model_parameters(vals.copy(), gd),
                                      key=lambda e, w: "C14:combined_model_subset_routing_unusable")
                    if ok:
                        off = 0
                        for pos, nms in grouped:
                            ref3[pos].update_model_parameters(vals[off : off + len(nms)].copy(), list(nms))
                            off += len(nms)
                        seq = x.copy()
                        for p in ref3:
                            seq = p(seq)
                        R.check(np.array_equal(cm3(x), seq), "combined_routing", {**case, "dofs": [[p, n_] for p, n_ in gd], "parameters": vals.tolist(), "what": "grouped entries"},
                                key="C14:combined_model_subset_routing_unusable")
                        R.count("combined_routing_grouped")
            R.sig(["combined", names], True, cls="combined")

        # ============================================= heterogeneous models
        for rep in range(2):
            shp = (int(rng.integers(3, 9)), int(rng.integers(3, 9)))
            nl = int(rng.integers(1, 6))
            values = sorted(int(v) for v in rng.choice(np.arange(0, 12), size=nl, replace=False))
            if rep == 0 and rng.random() < 0.5:
                values = list(range(nl))
            labels = np.array(values)[rng.integers(0, nl, size=shp)]
            for v in values:  # every label present
                labels.flat[int(rng.integers(0, labels.size))] = v
            values = sorted(set(int(v) for v in np.unique(labels)))
            nl = len(values)
            sc = rng.uniform(0.5, 2, size=nl)
            of = rng.uniform(-0.5, 0.5, size=nl)
            x = rng.uniform(-1, 2, size=shp)
            case = {"model": "HeterogeneousLinearModel", "shape": list(shp), "labels": values}
            ok, hm = R.guarded("heterogeneous_linear", lambda: darsia.HeterogeneousLinearModel(labels.astype(np.uint8), scaling=sc.copy(), offset=of.copy()))
            if ok:
                ok, out = R.guarded("heterogeneous_linear", lambda: hm(x), key=lambda e, w: "C14:heterogeneous_linear_model_shape_comparison")
                if ok:
                    good = True
                    for li, v in enumerate(values):
                        hom = darsia.LinearModel(scaling=float(sc[li]), offset=float(of[li]))(x)
                        good &= bool(np.allclose(out[labels == v], hom[labels == v], rtol=1e-14, atol=1e-14))
                    R.check(good, "heterogeneous_linear", case)
                    # call history on one object: other resolutions in between, then the original resolution again;
                    # at another resolution the labels are the nearest-neighbour resampling of the ORIGINAL label map
                    import cv2
                    hist_good, steps = True, []
                    for _h in range(int(rng.integers(1, 4))):
                        shp2 = (int(rng.integers(2, 17)), int(rng.integers(2, 17)))
                        x2 = rng.uniform(-1, 2, size=shp2)
                        ok2, out_h = R.guarded("heterogeneous_linear", lambda: hm(x2))
                        if not ok2:
                            break
                        lab2 = cv2.resize(labels.astype(np.uint8), tuple(reversed(shp2)), interpolation=cv2.INTER_NEAREST)
                        steps.append(list(shp2))
                        for li, v in enumerate(values):
                            hist_good &= bool(np.allclose(out_h[lab2 == v], (sc[li] * x2 + of[li])[lab2 == v], rtol=1e-14, atol=1e-14))
                    ok2, out_back = R.guarded("heterogeneous_linear", lambda: hm(x))
                    if ok2:
                        R.check(hist_good and np.array_equal(out_back, out), "heterogeneous_linear", {**case, "what": "resolution history on one object", "resolutions": steps})
                        R.count("heterogeneous_resolution_history")
                    # parameter routing: scalings first, then offsets
                    newp = rng.uniform(0.5, 2, size=2 * nl)
                    ok, _ = R.guarded("heterogeneous_linear", lambda: hm.update_model_parameters(newp.copy(), None))
                    if ok:
                        out2 = hm(x)
                        good = all(np.allclose(out2[labels == v], (newp[li] * x + newp[nl + li])[labels == v], rtol=1e-14, atol=1e-14) for li, v in enumerate(values))
                        R.check(bool(good), "heterogeneous_linear", {**case, "what": "parameter routing"})
                        # updates of one kind of parameter on the used object, each followed by a call
                        cur_s, cur_o = newp[:nl].copy(), newp[nl:].copy()
                        for step_i in range(3):
                            kind_u = ["offset", "scaling", "offset_by_dofs", "scaling_by_dofs"][int(rng.integers(0, 4))]
                            vals_u = rng.uniform(0.5, 2, size=nl)
                            if kind_u == "offset":
                                call_u = lambda: hm.update(offset=vals_u.copy())  # noqa: E731
                            elif kind_u == "scaling":
                                call_u = lambda: hm.update(scaling=vals_u.copy())  # noqa: E731
                            else:
                                call_u = lambda: hm.update_model_parameters(vals_u.copy(), [kind_u.split("_")[0]])  # noqa: E731
                            oku, _u = R.guarded("heterogeneous_linear", call_u)
                            if not oku:
                                break
                            if kind_u.startswith("offset"):
                                cur_o = vals_u.copy()
                            else:
                                cur_s = vals_u.copy()
                            oku, out_u = R.guarded("heterogeneous_linear", lambda: hm(x))
                            if oku:
                                good_u = all(np.allclose(out_u[labels == v], (cur_s[li] * x + cur_o[li])[labels == v], rtol=1e-14, atol=1e-14) for li, v in enumerate(values))
                                R.check(bool(good_u), "heterogeneous_linear", {**case, "what": "update of one kind of parameter on a used object, then a call", "update": kind_u, "step": step_i + 1}, group="update_history")
                                R.count("heterogeneous_update_history")
            # integer-typed signals: the label-wise model still agrees with the homogeneous one (which promotes to float)
            if ok:
                xi8 = rng.integers(0, 200, size=shp).astype([np.uint8, np.uint16, np.int32][rep % 3])
                hmi = darsia.HeterogeneousLinearModel(labels.astype(np.uint8), scaling=sc.copy(), offset=of.copy())
                oki, outi = R.guarded("heterogeneous_linear", lambda: hmi(xi8.copy()), key=lambda e, w: "C14:heterogeneous_linear_truncates_integer_signals")
                if oki:
                    goodi = True
                    for li, v in enumerate(values):
                        homi = np.asarray(darsia.LinearModel(scaling=float(sc[li]), offset=float(of[li]))(xi8.copy()), float)
                        goodi &= bool(np.allclose(np.asarray(outi, float)[labels == v], homi[labels == v], rtol=1e-12, atol=1e-12))
                    R.check(goodi, "heterogeneous_linear", {**case, "what": "integer-typed signal", "signal_dtype": xi8.dtype.name, "result_dtype": np.asarray(outi).dtype.name},
                            key="C14:heterogeneous_linear_truncates_integer_signals", group="integer_signal")
                    R.count("heterogeneous_integer_signals")
                # a combined model with a label-wise part: all parameters in order (scalings, offsets of the label-wise part,
                # then the parameters of the next part)
                partc = darsia.ClipModel(**{"min value": -5.0, "max value": 5.0})
                hmc = darsia.HeterogeneousLinearModel(labels.astype(np.uint8), scaling=sc.copy(), offset=of.copy())
                cmh = darsia.CombinedModel([hmc, partc])
                pall = np.concatenate([rng.uniform(0.5, 2, size=nl), rng.uniform(-0.5, 0.5, size=nl), [-0.25, 0.75]])
                pbuf = pall.copy()  # the caller's parameter buffer: handed over, then re-used for something else
                okc, _ = R.guarded("combined_routing", lambda: cmh.update_model_parameters(pbuf, None), key=lambda e, w: "C14:combined_model_with_labelwise_part")
                if okc:
                    okc, outc = R.guarded("combined_routing", lambda: cmh(x.copy()))
                if okc:
                    pbuf[...] = rng.uniform(3.0, 4.0, size=pbuf.shape)
                    okc2, outc2 = R.guarded("combined_routing", lambda: cmh(x.copy()))
                    if okc2:
                        R.check(np.array_equal(np.asarray(outc2), np.asarray(outc)), "combined_routing", {**case, "what": "the caller overwrote his parameter buffer after the update; the model was called again"},
                                group="parameter_buffer_reused")
                        R.count("parameter_buffer_reused")
                    expc = np.zeros(shp)
                    for li, v in enumerate(values):
                        expc[labels == v] = np.clip(pall[li] * x + pall[nl + li], -0.25, 0.75)[labels == v]
                    R.check(bool(np.allclose(outc, expc, rtol=1e-13, atol=1e-13)), "combined_routing", {**case, "what": "label-wise part followed by a clip model, all parameters"},
                            key="C14:combined_model_with_labelwise_part", group="labelwise_part")
                    R.count("combined_with_labelwise_part")
            # static threshold: heterogeneous == homogeneous per label; strict inequalities; mask
            lo = rng.uniform(-0.2, 0.5, size=nl)
            hi = lo + rng.uniform(0.1, 1.0, size=nl)
            xx = x.copy()
            xx.flat[0] = lo[0]  # exactly on a bound: strict inequality must exclude it
            msk = rng.random(shp) > 0.3
            for upper in (True, False):
                case = {"model": "StaticThresholdModel", "shape": list(shp), "labels": values, "upper": upper}
                ok, tm = R.guarded("threshold", lambda: darsia.StaticThresholdModel(list(lo), list(hi) if upper else None, labels=labels))
                if not ok:
                    continue
                ok, out = R.guarded("threshold", lambda: tm(xx))
                if ok:
                    exp = np.zeros(shp, bool)
                    for li, v in enumerate(values):
                        hom = darsia.StaticThresholdModel(float(lo[li]), float(hi[li]) if upper else None)(xx)
                        ref = (xx > lo[li]) & ((xx < hi[li]) if upper else True)
                        R.check(np.array_equal(hom, ref) and hom.dtype == bool, "threshold", {**case, "what": "homogeneous strict inequalities", "label": v})
                        exp |= ref & (labels == v)
                    R.check(np.array_equal(out, exp) and out.dtype == bool, "threshold", {**case, "what": "heterogeneous == homogeneous per label"})
                    ok, outm = R.guarded("threshold", lambda: tm(xx, msk))
                    if ok:
                        R.check(np.array_equal(outm, exp & msk), "threshold", {**case, "what": "restricted to mask"})
            # three-dimensional signals with a three-dimensional label map
            shp3 = (int(rng.integers(2, 5)), int(rng.integers(2, 5)), int(rng.integers(2, 4)))
            lab3 = np.array(values)[rng.integers(0, nl, size=shp3)]
            for v in values:
                lab3.flat[int(rng.integers(0, lab3.size))] = v
            vals3 = sorted(set(int(v) for v in np.unique(lab3)))
            if len(vals3) == nl:
                x3 = rng.uniform(-1, 2, size=shp3)
                ok3, t3 = R.guarded("threshold", lambda: darsia.StaticThresholdModel(list(lo), list(hi), labels=lab3))
                if ok3:
                    ok3, o3 = R.guarded("threshold", lambda: t3(x3), key=lambda e, w: "C14:heterogeneous_threshold_three_dimensional_labels")
                if ok3:
                    e3 = np.zeros(shp3, bool)
                    for li, v in enumerate(values):
                        e3 |= (x3 > lo[li]) & (x3 < hi[li]) & (lab3 == v)
                    R.check(np.array_equal(o3, e3), "threshold", {"model": "StaticThresholdModel", "shape": list(shp3), "labels": values, "what": "3-D signal and label map"},
                            key="C14:heterogeneous_threshold_three_dimensional_labels", group="3d_labels")
                    R.count("threshold_3d_label_maps")
            # a combined model addressed through dofs whose first entry is vector valued (label-wise scalings): the next
            # entry receives the value that follows those of the first
            if ok and nl >= 2:
                hmd = darsia.HeterogeneousLinearModel(labels.astype(np.uint8), scaling=sc.copy(), offset=of.copy())
                lind = darsia.LinearModel(scaling=1.0, offset=0.0)
                cmd = darsia.CombinedModel([hmd, lind])
                pvec = np.concatenate([rng.uniform(0.5, 2, size=nl), [0.375]])
                okd, _ = R.guarded("combined_routing", lambda: cmd.update_model_parameters(pvec.copy(), [(0, "scaling"), (1, "offset")]), key=lambda e, w: "C14:combined_model_vector_valued_dof_cursor")
                if okd:
                    okd, outd = R.guarded("combined_routing", lambda: cmd(x.copy()))
                if okd:
                    expd = np.zeros(shp)
                    for li, v in enumerate(values):
                        expd[labels == v] = (pvec[li] * x + of[li])[labels == v]
                    expd = expd + 0.375
                    R.check(bool(np.allclose(outd, expd, rtol=1e-13, atol=1e-13)), "combined_routing", {**case, "what": "vector-valued dof (label-wise scalings) followed by another dof",
                                                                                                        "linear_offset_after_update": float(lind._offset)},
                            key="C14:combined_model_vector_valued_dof_cursor", group="vector_valued_dof")
                    R.count("combined_vector_valued_dof")
            # integer-typed signals with bounds that are not integers (and bounds exactly on signal values)
            for idt in (np.uint8, np.int16, np.uint16):
                lo_i, hi_i = float(rng.integers(0, 4)) + float(rng.choice([-0.5, 0.0, 0.5])), float(rng.integers(4, 9)) + float(rng.choice([-0.5, 0.0, 0.5]))
                xi = rng.integers(0 if idt != np.int16 else -3, 10, size=shp).astype(idt)
                for upper in (True, False):
                    ok, ti = R.guarded("threshold", lambda: darsia.StaticThresholdModel(lo_i, hi_i if upper else None))
                    if ok:
                        ok, oi = R.guarded("threshold", lambda: ti(xi.copy()))
                    if ok:
                        refi = (xi.astype(float) > lo_i) & ((xi.astype(float) < hi_i) if upper else True)
                        R.check(np.array_equal(oi, refi) and oi.dtype == bool, "threshold",
                                lambda: {"model": "StaticThresholdModel", "signal_dtype": np.dtype(idt).name, "lower": lo_i, "upper": hi_i if upper else None, "what": "integer signal, strict inequalities"},
                                group="integer_signal")
                        R.count("threshold_integer_signals")
            R.sig(["heterogeneous", nl, values == list(range(nl))], nl > 1, cls="heterogeneous")
        if n < 1:
            R.sample({"families": ["clip", "linear", "combined", "heterogeneous_linear", "threshold"], "last_case": case})

    # ================================================================ kernels
    for kc in range(spec["kernel_cases"]):
        if not R.want(["kernel", kc]):
            continue
        rng = rng_for(spec["seed"], "C14", 500 + spec["shard"], kc)
        kind = ["gaussian", "linear", "linear_shifted"][kc % 3]
        for _ in range(100):
            ns = int(rng.integers(1, 5)) if kind != "linear" else int(rng.integers(1, 4))
            sup = rng.uniform(0.05, 0.95, size=(ns, 3)).astype(np.float32)
            if kind == "gaussian" and kc % 6 == 3:
                # colour signals that were not normalised to [0, 1] (8-bit scale)
                sup = rng.uniform(5.0, 250.0, size=(ns, 3)).astype(np.float32)
                R.count("kernel_signals_on_8bit_scale") if _ == 0 else None
            kern = darsia.GaussianKernel(gamma=float(rng.uniform(1, 10))) if kind == "gaussian" else darsia.LinearKernel(a=0.0 if kind == "linear" else float(rng.uniform(0.3, 1.5)))
            X = np.array([[kern(sup[i], sup[j]) for j in range(ns)] for i in range(ns)], dtype=float)
            if np.linalg.cond(X) <= 1e3:
                break
        vals = rng.uniform(0, 1, size=ns)
        case = {"kernel": kind, "num_supports": ns, "supports": sup.tolist(), "values": vals.tolist()}
        ok, ki = R.guarded("kernel_reproduces_values", lambda: darsia.KernelInterpolation(kern, sup.copy(), vals.copy()))
        if not ok:
            continue
        ok, at = R.guarded("kernel_reproduces_values", lambda: ki(sup.copy()))
        if ok:
            # supports are re-ordered internally (np.unique); compare through the object's own ordering
            exp = np.asarray(ki.values, float)
            got = np.asarray(ki(np.asarray(ki.supports)), float)
            R.check(got.shape == exp.shape and bool(np.all(np.abs(got - exp) <= 1e-3 * max(1.0, float(np.max(np.abs(exp)))))), "kernel_reproduces_values",
                    lambda: {**case, "got": got.tolist(), "expected": exp.tolist()}, group=kind)
            # ... and as the caller sees it: the prescribed values at the supports, in the caller's order
            tolv = 1e-3 * max(1.0, float(np.max(np.abs(vals))))
            R.check(np.shape(at) == (ns,) and bool(np.all(np.abs(np.asarray(at, float) - vals) <= tolv)), "kernel_reproduces_values",
                    lambda: {**case, "what": "caller's order", "got": np.asarray(at, float).tolist()}, key="C14:kernel_values_reordered_once", group=kind)
            # new values prescribed on the same object (same supports, caller's order), through both entry points
            for how in ("update", "update_model_parameters", "update_model_parameters_values_via_all"):
                newv = rng.uniform(0, 1, size=ns)
                if how == "update":
                    ok, _ = R.guarded("kernel_reproduces_values", lambda: ki.update(values=newv.copy()))
                elif how == "update_model_parameters_values_via_all":
                    # all parameters = (kernel, values): the same kernel object and new values; dofs None and "all" alike
                    dflt = [None, "all"][kc % 2]
                    ok, _ = R.guarded("kernel_reproduces_values", lambda: ki.update_model_parameters([kern] + list(newv), dflt), key=lambda e, w: "C14:kernel_interpolation_default_dofs")
                else:
                    ok, _ = R.guarded("kernel_reproduces_values", lambda: ki.update_model_parameters(newv.copy(), ["values"]))
                if ok:
                    ok, at2 = R.guarded("kernel_reproduces_values", lambda: ki(sup.copy()))
                if ok:
                    R.check(np.shape(at2) == (ns,) and bool(np.all(np.abs(np.asarray(at2, float) - newv) <= 1e-3)), "kernel_reproduces_values",
                            lambda: {**case, "after": f"{how}(values)", "prescribed": newv.tolist(), "got": np.asarray(at2, float).tolist()},
                            key="C14:kernel_values_reordered_once", group=f"values_update/{kind}")
                    R.count("kernel_values_updated")
        # the same object set up a second time with other supports of the same number (and other values)
        if ok and kc % 2 == 0:
            for _ in range(50):
                sup2 = rng.uniform(0.05, 0.95, size=(ns, 3)).astype(np.float32)
                X2b = np.array([[kern(sup2[i], sup2[j]) for j in range(ns)] for i in range(ns)], dtype=float)
                if np.linalg.cond(X2b) <= 1e3:
                    break
            vals2 = rng.uniform(0, 1, size=ns)
            ok_s, _ = R.guarded("kernel_reproduces_values", lambda: ki.update(supports=sup2.copy(), values=vals2.copy()))
            if ok_s:
                ok_s, at3 = R.guarded("kernel_reproduces_values", lambda: ki(sup2.copy()))
            if ok_s:
                R.check(np.shape(at3) == (ns,) and bool(np.all(np.abs(np.asarray(at3, float) - vals2) <= 1e-3)), "kernel_reproduces_values",
                        lambda: {**case, "after": "update(supports, values) with the same number of supports", "prescribed": vals2.tolist(), "got": np.asarray(at3, float).tolist()},
                        group=f"supports_replaced/{kind}")
                R.count("kernel_supports_replaced")
            # restore the original set-up for the clauses below
            ki.update(supports=sup.copy(), values=vals.copy())
        # fixed + variable supports (AdvancedKernelInterpolation): all prescribed values are reproduced, also after the
        # variable values alone are replaced
        if ns >= 2 and kc % 2 == 1:
            nfix = int(rng.integers(1, ns))
            ok, aki = R.guarded("kernel_reproduces_values", lambda: darsia.AdvancedKernelInterpolation(kern))
            if ok:
                ok, _ = R.guarded("kernel_reproduces_values", lambda: aki.update_advanced(fixed_supports=sup[:nfix].copy(), fixed_values=vals[:nfix].copy(),
                                                                                         variable_supports=sup[nfix:].copy(), variable_values=vals[nfix:].copy()))
            if ok:
                ok, ata = R.guarded("kernel_reproduces_values", lambda: aki(sup.copy()))
            if ok:
                R.check(np.shape(ata) == (ns,) and bool(np.all(np.abs(np.asarray(ata, float) - vals) <= 1e-3)), "kernel_reproduces_values",
                        lambda: {**case, "class": "AdvancedKernelInterpolation", "fixed": nfix, "got": np.asarray(ata, float).tolist()}, group=f"advanced/{kind}")
                newvar = rng.uniform(0, 1, size=ns - nfix)
                ok, _ = R.guarded("kernel_reproduces_values", lambda: aki.update_variable_model_parameters(newvar.copy()))
                if ok:
                    ok, atb = R.guarded("kernel_reproduces_values", lambda: aki(sup.copy()))
                if ok:
                    expb = np.concatenate([vals[:nfix], newvar])
                    R.check(np.shape(atb) == (ns,) and bool(np.all(np.abs(np.asarray(atb, float) - expb) <= 1e-3)), "kernel_reproduces_values",
                            lambda: {**case, "class": "AdvancedKernelInterpolation", "after": "update_variable_model_parameters", "fixed": nfix, "prescribed": expb.tolist(),
                                     "got": np.asarray(atb, float).tolist()}, group=f"advanced_update/{kind}")
                    R.count("kernel_advanced_updated")
                    # ... and then new fixed values alone: the variable values set before are kept
                    newfix = rng.uniform(0, 1, size=nfix)
                    ok, _ = R.guarded("kernel_reproduces_values", lambda: aki.update_advanced(fixed_values=newfix.copy()))
                    if ok:
                        ok, atc = R.guarded("kernel_reproduces_values", lambda: aki(sup.copy()))
                    if ok:
                        expc = np.concatenate([newfix, newvar])
                        R.check(np.shape(atc) == (ns,) and bool(np.all(np.abs(np.asarray(atc, float) - expc) <= 1e-3)), "kernel_reproduces_values",
                                lambda: {**case, "class": "AdvancedKernelInterpolation", "after": "update_variable_model_parameters, then update_advanced(fixed_values)", "fixed": nfix,
                                         "prescribed": expc.tolist(), "got": np.asarray(atc, float).tolist()}, group=f"advanced_update_fixed/{kind}")
        # numba path == plain kernel sum for 1-, 2- and 3-dimensional signal arrays
        w = np.asarray(ki.interpolation_weights, np.float32)
        S = np.asarray(ki.supports, np.float32)
        on_8bit = kind == "gaussian" and kc % 6 == 3

        def draw_signal(shape_):
            if not on_8bit:
                return rng.uniform(0, 1, size=shape_ + (3,))
            # colours in the neighbourhood of the supports (elsewhere a Gaussian of this width vanishes)
            pick_ = rng.integers(0, len(S), size=shape_)
            return np.asarray(S, float)[pick_] + rng.uniform(-0.6, 0.6, size=shape_ + (3,))

        for sname, sigarr in (("pixel", draw_signal(())), ("pixel_list", draw_signal((int(rng.integers(1, 20)),))),
                              ("image", draw_signal((int(rng.integers(1, 7)), int(rng.integers(1, 7)))))):
            sig32 = sigarr.astype(np.float32)
            ok, fast = R.guarded("kernel_numba_equals_plain_sum", lambda: kern.linear_combination(sig32, S, w))
            if ok:
                plain = sum(float(w[k]) * np.asarray(kern(sig32.astype(float), S[k].astype(float)), float) for k in range(len(S)))
                sc = max(1.0, float(np.sum(np.abs(w))))
                R.check(np.shape(fast) == np.shape(plain) and bool(np.all(np.abs(np.asarray(fast, float) - plain) <= 1e-3 * sc)), "kernel_numba_equals_plain_sum",
                        lambda: {**case, "signal": sname, "max_diff": float(np.max(np.abs(np.asarray(fast, float) - plain))) if np.shape(fast) == np.shape(plain) else "shape"}, group=kind)
        # kernel update on the same object: values must still be reproduced
        if kc % 2 == 0:
            kern2 = darsia.GaussianKernel(gamma=float(rng.uniform(1, 10)))
            X2 = np.array([[kern2(S[i], S[j]) for j in range(len(S))] for i in range(len(S))], dtype=float)
            if np.linalg.cond(X2) <= 1e3:
                ok, _ = R.guarded("kernel_reproduces_values", lambda: ki.update(kernel=kern2))
                if ok:
                    exp = np.asarray(ki.values, float)
                    ok, got = R.guarded("kernel_reproduces_values", lambda: np.asarray(ki(np.asarray(ki.supports)), float))
                    if ok:
                        R.check(bool(np.all(np.abs(got - exp) <= 1e-3 * max(1.0, float(np.max(np.abs(exp)))))), "kernel_reproduces_values",
                                lambda: {**case, "after": "update(kernel=...)", "got": got.tolist(), "expected": exp.tolist()}, key="C14:kernel_update_keeps_stale_matrix", group="kernel_update")
        R.sig(["kernel", kind, ns], ns > 1, cls=f"kernel/{kind}")
        if kc == 0:
            R.sample(case)

    # ============================================================ polynomials
    # every shard walks through the degrees in its own order (shard 0: ascending, then descending), visiting spaces
    # that stay alive (re-evaluated later) as well as fresh ones; each evaluation is judged on its own
    if R.want(["poly"]):
        rng = rng_for(spec["seed"], "C14", 999, spec["shard"])
        pts = rng.uniform(-1, 1, size=(200, 2))
        live = {}
        visits = [0, 1, 2, 3, 4, 3, 2, 1, 0] if spec["shard"] == 0 else [int(v) for v in rng.integers(0, 5, size=9)]
        for vi, d in enumerate(visits):
            fresh = d not in live or rng.random() < 0.5
            sp = darsia.PolynomialApproximationSpace(d) if fresh else live[d]
            live.setdefault(d, sp)
            mon = np.stack([pts[:, 0] ** i * pts[:, 1] ** j for i in range(d + 1) for j in range(d + 1 - i)], axis=1)
            ok, B = R.guarded("polynomial_span", lambda: np.stack([np.asarray(sp.basis(pts, k), float) for k in range(sp.size)], axis=1))
            if not ok:
                continue
            good = sp.size == mon.shape[1] and B.shape == mon.shape
            res = None
            if good:
                r1 = mon - B @ np.linalg.lstsq(B, mon, rcond=None)[0]
                r2 = B - mon @ np.linalg.lstsq(mon, B, rcond=None)[0]
                res = max(float(np.max(np.abs(r1))), float(np.max(np.abs(r2))))
                good = res <= 1e-9
            R.check(good, "polynomial_span", {"degree": d, "size": sp.size, "expected_size": mon.shape[1], "mutual_residual": res, "degrees_visited_before": visits[:vi], "fresh_space": bool(fresh)},
                    key="C14:polynomial_basis_enumerates_tensor_grid" if d >= 2 else None)
            R.sig(["poly", d], d > 0, cls="poly")
            # via __call__ as well
            ok, allb = R.guarded("polynomial_span", lambda: sp(pts))
            if ok:
                R.check(len(allb) == sp.size and all(np.array_equal(np.asarray(allb[k]), np.asarray(sp.basis(pts, k))) for k in range(sp.size)), "polynomial_call_lists_basis", {"degree": d})


MANIFEST = {
    "technique": "boundary monitors on the model classes, kernels and polynomial space judged by their defining algebra (bounds/idempotence, affinity, sequential composition, expected parameter routing over all subsets, per-label agreement, strict masks, kernel sums, mutual span)",
    "level_text": "Every model family of the property is executed on random signals of all supported kinds and its result judged by an oracle that evaluates the defining algebra directly; parameter routing is checked for every non-empty subset of updatable parameters against reference sub-models updated one parameter at a time; heterogeneous models are compared label by label (arbitrary label values) with the homogeneous model; kernel interpolation is checked at its supports, after a kernel update, and against the plain kernel sum for 1-, 2- and 3-dimensional signals; polynomial spaces of degree 0-4 are compared with the monomials of total degree <= d by mutual least squares.",
    "level_note": "Sampled inputs; kernel cases are budgeted by count because each linear_combination call re-compiles a numba closure (2-3 s).",
    "design_ref": "DESIGN.md section 3, C14",
}
