"""C05 - computed Wasserstein distances behave like an optimal-transport cost.

Monitors: boundary monitors on ``darsia.wasserstein_distance``, the solver
classes and ``EMD.__call__`` (every returned distance is recorded with its
inputs); oracles: metric laws between paired executions, the first-moment
bound, a weak-duality certificate for the true discrete minimum on small grids
(vf.oracles.transport.certified_lower_bound), the independently computed cost
of the unique mass-conserving flux on 1-D / one-cell-thin grids, and front-end
versus back-end equality.
"""

from __future__ import annotations

import numpy as np

from vf.oracles import transport as TR
from vf.oracles.gridmodel import GridModel

LEVEL = "exploration"
EXHAUSTIVE = {"quick": False, "thorough": False}
RULE = (
    "families: (identity) every method x L1 x mobility on rotating grids with identical inputs; (laws) random dense / "
    "compact / single equal-mass integer pairs on 1-D..3-D grids up to ~300 cells, anisotropic voxels: swap, scaling by "
    "c in {1/2, 2, 8, 0.3, 7.7} (Newton; Bregman with its penalty L scaled along), "
    "constant cell weight, first-moment bound (converged or not), front-end == back-end; (minimum) all three L1 rules on "
    "grids with <= 12 independent flux cycles against the duality certificate; (thin) every 1-D and n x 1 (x 1) grid up to "
    "40 cells (thorough; a sample in quick) x method x mobility against the cost of the unique flux; (emd) single-cell "
    "moves, swap, scaling, first-moment bound for the OpenCV back-end. distinct = (family, grid, mass kind, method, modes, "
    "law); non-trivial = the pair differs (or, for identity, the run executed at least the initial solve)"
)
TOLERANCES = {
    "identity": "|d| <= 1e-12 * total mass * diameter",
    "swap": "1e-12 relative",
    "scaling (Newton, Bregman with scaled L, constant weight)": "1e-8 relative (the absolute eps-regularisation of vanishing fluxes is not scale-equivariant and leaves 1e-10 level differences)",
    "lower bounds": "d >= bound - 1e-9 * max(bound, scale)",
    "thin grids": "1e-9 relative to the independent cost of the unique flux",
    "front-end vs back-end": "bitwise",
    "EMD": "1e-5 relative (float32 signatures inside OpenCV)",
}
ASSUMPTIONS = [
    "the discrete transport cost is the quadrature functional documented for the selected L1 mode; the certificate is a weak-duality bound (sound for any dual-feasible pair)",
    "runs hit by the recorded Anderson finding are excluded by using aa_depth = 0 here (C04 owns that finding)",
]
FLOORS = {
    "quick": {"emd_masses_in_8bit_images": 50, "weights_in_8bit_images": 25, "one_object_both_directions": 40, "emd_series_equals_per_slice": 60, "identity_zero": 90, "swap_symmetric": 180, "scaling_linear": 250, "first_moment_bound": 650, "true_minimum_bound": 140, "thin_grid_unique_flux": 150, "frontend_equals_backend": 400, "emd": 300, "emd_object_reused_across_cases": 20, "options_dictionary_reused": 50},
    "thorough": {"emd_masses_in_8bit_images": 400, "weights_in_8bit_images": 200, "one_object_both_directions": 300, "emd_series_equals_per_slice": 600, "identity_zero": 450, "swap_symmetric": 1300, "scaling_linear": 1800, "first_moment_bound": 6000, "true_minimum_bound": 1100, "thin_grid_unique_flux": 2300, "frontend_equals_backend": 3000, "emd": 2000, "emd_object_reused_across_cases": 200, "options_dictionary_reused": 500},
}
SHARD_TIMEOUT = {"quick": 1500, "thorough": 6000}
LAW_GRIDS = [(9,), (30,), (4, 5), (1, 12), (8, 8), (12, 10), (3, 3, 3), (4, 5, 6), (2, 1, 9), (17, 16)]
MIN_GRIDS = [(2, 2), (2, 3), (2, 4), (3, 3), (3, 4), (2, 2, 2), (4, 4), (2, 7), (3, 5), (2, 2, 3)]
ID_GRIDS = [(5,), (3, 4), (1, 6), (2, 2, 3), (6, 1), (7, 5)]


def thin_grids(maxcells):
    out = [(n,) for n in range(2, maxcells + 1)]
    out += [(n, 1) for n in range(2, maxcells + 1)] + [(1, n) for n in range(2, maxcells + 1)]
    out += [(n, 1, 1) for n in range(2, maxcells + 1, 3)] + [(1, n, 1) for n in range(2, maxcells + 1, 3)] + [(1, 1, n) for n in range(2, maxcells + 1, 3)]
    return out


def shards(tier, seed):
    from vf.gen.wass import L1, MOB

    rng = np.random.default_rng([seed, 5])
    cases = []
    methods = ["newton", "bregman", "bregman_adaptive"]
    q = tier == "quick"
    # identity
    n = 0
    for m in methods:
        for l1 in L1:
            for mob in MOB:
                for rep in range(2 if q else 10):
                    cases.append({"fam": "identity", "grid": list(ID_GRIDS[(n + rep) % len(ID_GRIDS)]), "method": m, "l1": l1, "mob": mob})
                n += 1
    # laws
    for i in range(200 if q else 1500):
        cases.append({"fam": "laws", "grid": list(LAW_GRIDS[i % len(LAW_GRIDS)] if not q else LAW_GRIDS[i % 8]), "method": methods[i % 3], "l1": L1[(i // 3) % 3],
                      "mob": MOB[(i + i // 15) % 5], "mass": ["dense", "compact", "single"][(i // 2) % 3], "c": [0.5, 2.0, 8.0, 0.3, 7.7][i % 5],
                      "weight": [2.0, 0.3, 4.0][i % 3]})
    # true minimum
    for i in range(150 if q else 1200):
        cases.append({"fam": "minimum", "grid": list(MIN_GRIDS[i % len(MIN_GRIDS)]), "method": methods[i % 3], "l1": L1[(i // 3) % 3], "mob": MOB[(i // 2) % 5],
                      "mass": ["dense", "compact", "single"][(i // 5) % 3], "weight": [None, None, 2.0][i % 3]})
    # thin grids
    tg = thin_grids(40)
    if q:
        tg = [tg[i] for i in rng.choice(len(tg), size=40, replace=False)]
    n = 0
    for g in tg:
        for rep in range(4 if q else 15):
            cases.append({"fam": "thin", "grid": list(g), "method": methods[n % 3], "l1": L1[(n // 3) % 3], "mob": MOB[(n + n // 15) % 5],
                          "mass": ["dense", "compact", "single"][(n // 7) % 3]})
            n += 1
    # emd
    for i in range(60 if q else 400):
        cases.append({"fam": "emd", "grid": [int(rng.integers(1, 9)), int(rng.integers(1, 9))], "kind": ["single", "dense", "compact"][i % 3]})
    for ci, c in enumerate(cases):
        c["id"] = ci
    k = 16
    return [{"shard": i, "cases": cases[i::k]} for i in range(k)]


def run_shard(spec, R):
    import darsia

    from vf.gen import wass
    from vf.gen.images import rng_for
    from vf.snapshots import snap

    shared = {}
    recorded = []  # boundary record of every distance returned in this shard

    def solve(method, grid_imgs, l1, mob, weight=None, extra=None, num_iter=8, frontend=False):
        m1, m2 = grid_imgs
        opt = wass.make_options(darsia, method, l1, mob, "pressure", "direct", 0, num_iter, extra)
        opt_before = snap({k: v for k, v in opt.items() if not callable(v)})
        try:
            return _solve(method, m1, m2, opt, weight, frontend)
        finally:
            # the options dictionary is the caller's: it may be used for the next computation with other values
            # (observation only: leaving arguments untouched is C17's business; what a modified dictionary does to the
            # next computation that is given the same dictionary is judged in the thin-grid family below)
            if snap({k: v for k, v in opt.items() if not callable(v)}) != opt_before:
                R.count("observation:options_modified_by_library")

    def _solve(method, m1, m2, opt, weight, frontend):
        if frontend:
            out = darsia.wasserstein_distance(m1, m2, "newton" if method == "newton" else "bregman", weight=weight, options=opt)
        else:
            w1 = wass.solver_class(darsia, method)(darsia.generate_grid(m1), weight, opt)
            cap = wass.Capture(w1)
            out = w1(m1, m2)
            # eps-regularised mobility on exactly vanishing fluxes: coefficients span > 10 decades and the
            # linear back-end measurably lost the mass balance (see C04); equalities are not judged then
            fs = max(float(np.max(np.abs(m2.img - m1.img))) * float(np.prod(m1.voxel_size)), 1e-300)
            out[1]["vf_degenerate"] = any(x.get("contrast", 1.0) > 1e10 and x.get("residual", 0.0) > 1e-9 * fs for x in cap.linear_calls)
        d, info = out
        recorded.append(float(d))
        R.count("boundary:distance_returned")
        return float(d), info

    def weight_image(shape, h, c):
        return darsia.Image(np.full(shape, float(c)), space_dim=len(shape), dimensions=[shape[d] * h[d] for d in range(len(shape))], scalar=True)

    for c in spec["cases"]:
        if not R.want(["case", c["id"]]):
            continue
        rng = rng_for(spec["seed"], "C05", 0, c["id"])
        shape = tuple(c["grid"])
        dim = len(shape)
        h = [float(10 ** rng.uniform(-0.7, 0.7)) for _ in shape]
        M = GridModel(shape, h)
        desc = dict(c)
        desc["voxel_size"] = h
        fam = c["fam"]

        if fam == "identity":
            a, _ = wass.mass_pair(rng, shape, "dense")
            m1, m2 = wass.images(darsia, a, a.copy(), h)
            key = None
            ok, out = R.guarded("identity_zero", lambda: solve(c["method"], (m1, m2), c["l1"], c["mob"]), key=lambda e, w: key)
            if ok:
                scale = float(np.sum(a)) * M.volume * float(np.linalg.norm([shape[d] * h[d] for d in range(dim)]))
                R.check(abs(out[0]) <= 1e-12 * scale, "identity_zero", {**desc, "distance": out[0]})
            R.sig(["identity", c["grid"], c["method"], c["l1"], c["mob"]], True, cls=f"identity/{c['method']}/{c['mob']}")
            continue

        if fam == "emd":
            # one EMD object serves every case of the shard (same pixel shapes recur with other voxel sizes); the
            # front-end builds a fresh object per call, so frontend_equals_backend also decides history independence
            if "emd" not in shared:
                shared["emd"] = darsia.EMD()
            emd = shared["emd"]
            kind = c["kind"]
            # the same pixel shape is used twice in a row with two different voxel sizes on the same object
            for rep_h in (h, [float(10 ** rng.uniform(-0.7, 0.7)) for _ in shape]):
                h = rep_h
                R.count("emd_object_reused_across_cases", int(shared.get("emd_calls", 0) > 0))
                shared["emd_calls"] = shared.get("emd_calls", 0) + 1
                M = GridModel(shape, h)
                desc["voxel_size"] = h
                a, b = wass.mass_pair(rng, shape, kind)
                if np.array_equal(a, b):
                    R.skip("emd:identical_pair")
                    continue
                m1, m2 = wass.images(darsia, a, b, h)
                ok, d12 = R.guarded("emd", lambda: emd(m1, m2))
                if not ok:
                    continue
                f = M.flat(b - a) * M.volume
                sc = max(abs(d12), 1e-300)
                if kind == "single":
                    ia = np.argwhere(a != 0)[0]
                    ib = np.argwhere(b != 0)[0]
                    exp = float(a[tuple(ia)]) * M.volume * float(np.linalg.norm((ib - ia) * np.array(h)))
                    R.check(abs(d12 - exp) <= 1e-5 * max(exp, 1e-300), "emd", {**desc, "law": "single_cell_move", "got": d12, "expected": exp})
                ok, d21 = R.guarded("emd", lambda: emd(m2, m1))
                if ok:
                    R.check(abs(d12 - d21) <= 1e-5 * sc, "emd", {**desc, "law": "swap", "d12": d12, "d21": d21})
                cc = float(rng.choice([0.5, 2.0, 8.0, 0.3, 7.7]))
                s1, s2 = wass.images(darsia, cc * a, cc * b, h)
                ok, ds = R.guarded("emd", lambda: emd(s1, s2))
                if ok:
                    R.check(abs(ds - cc * d12) <= 1e-5 * cc * sc, "emd", {**desc, "law": "scaling", "c": cc, "scaled": ds, "base": d12})
                fm = TR.first_moment_bound(M, M.flat(b - a))
                R.check(d12 >= fm - 1e-5 * max(fm, sc), "emd", {**desc, "law": "first_moment", "distance": d12, "bound": fm})
                # the same (integer-valued) masses held in 8-bit images, as photographs are: same distance
                if float(min(a.min(), b.min())) >= 0 and float(max(a.max(), b.max())) <= 255 and np.array_equal(a, np.round(a)) and np.array_equal(b, np.round(b)):
                    # (scaled up to the 8-bit range, so that the total mass exceeds what 8 bits hold)
                    ku = max(1, int(255 // max(float(a.max()), float(b.max()), 1.0)))
                    u1, u2 = wass.images(darsia, (ku * a).astype(np.uint8), (ku * b).astype(np.uint8), h)
                    ok, du = R.guarded("emd", lambda: emd(u1, u2))
                    if ok:
                        R.check(abs(float(du) - ku * d12) <= 1e-5 * ku * sc, "emd", lambda: {**desc, "law": "masses_in_8bit_images", "uint8": float(du), "float": ku * d12, "total_mass": float(ku * a.sum())}, group="uint8")
                        R.count("emd_masses_in_8bit_images")
                # two pairs as the two time slices of a pair of series images: one distance per slice, equal to the
                # distance of that slice taken alone
                a2, b2 = wass.mass_pair(rng, shape, kind)
                if not np.array_equal(a2, b2):
                    dims_s = [shape[d] * h[d] for d in range(dim)]
                    S1 = darsia.Image(np.stack([a, a2], axis=-1).astype(float), space_dim=2, dimensions=dims_s, scalar=True, series=True, time=[0.0, 1.0])
                    S2 = darsia.Image(np.stack([b, b2], axis=-1).astype(float), space_dim=2, dimensions=dims_s, scalar=True, series=True, time=[0.0, 1.0])
                    p1, p2 = wass.images(darsia, a2, b2, h)
                    ok, trio = R.guarded("emd", lambda: (emd(S1, S2), emd(p1, p2)))
                    if ok:
                        ds_, d_b = np.asarray(trio[0], float), float(trio[1])
                        R.check(ds_.shape == (2,) and abs(ds_[0] - d12) <= 1e-5 * sc and abs(ds_[1] - d_b) <= 1e-5 * max(abs(d_b), 1e-300), "emd",
                                lambda: {**desc, "law": "series_equals_per_slice", "series": ds_.tolist(), "slices_alone": [d12, d_b]}, group="series")
                        R.count("emd_series_equals_per_slice")
                fe = darsia.wasserstein_distance(m1, m2, "cv2.emd")
                R.check(float(fe) == float(d12), "frontend_equals_backend", {**desc, "frontend": float(fe), "backend": d12})
                R.sig(["emd", c["grid"], kind], True, cls="emd")
                if c["id"] % 16 == 0:
                    R.sample({**desc, "emd": d12})
            continue

        a, b = wass.mass_pair(rng, shape, c["mass"])
        if fam == "thin" and c["mass"] == "dense":
            for _ in range(30):  # avoid exactly vanishing interior prefix sums (exactly zero fluxes)
                pre = np.cumsum((b - a).ravel())[:-1]
                if pre.size == 0 or np.all(pre != 0):
                    break
                a, b = wass.mass_pair(rng, shape, "dense")
        if np.array_equal(a, b):
            R.skip("identical_pair_drawn")
            continue
        m1, m2 = wass.images(darsia, a, b, h)
        f = M.flat(b - a) * M.volume
        cw = c.get("weight")
        key = None
        R.sig([fam, c["grid"], c["mass"], c["method"], c["l1"], c["mob"]], True, cls=f"{fam}/{c['method']}")

        if fam == "thin":
            ok, out = R.guarded("thin_grid_unique_flux", lambda: solve(c["method"], (m1, m2), c["l1"], c["mob"]))
            if ok and out[1].get("vf_degenerate"):
                R.skip("degenerate_mobility:linear_backend_precision_lost")
            elif ok:
                u = TR.unique_flux_thin_grid(M, f)
                exp = TR.cost(M, u, c["l1"])
                fm = TR.first_moment_bound(M, M.flat(b - a))
                R.check(out[0] >= fm - 1e-9 * max(fm, abs(out[0])), "first_moment_bound", {**desc, "distance": out[0], "bound": fm})
                R.check(abs(out[0] - exp) <= 1e-9 * max(exp, 1e-300), "thin_grid_unique_flux",
                        {**desc, "distance": out[0], "cost_of_unique_flux": exp, "converged": bool(out[1]["converged"])}, group=f"{c['method']}/{c['mob']}")
                # one options dictionary, built once and re-used by the caller with another penalty L for the next
                # computation (Bregman): the second result is still the cost of the unique flux
                if c["method"].startswith("bregman") and c["id"] % 2 == 0:
                    optr = wass.make_options(darsia, c["method"], c["l1"], c["mob"], "pressure", "direct", 0, 8, None)
                    for Lval in (float(rng.choice([0.5, 2.0, 5.0])), float(rng.choice([0.25, 1.0, 8.0]))):
                        optr["L"] = Lval
                        okr, outr = R.guarded("thin_grid_unique_flux", lambda: wass.solver_class(darsia, c["method"])(darsia.generate_grid(m1), None, optr)(m1, m2))
                        if okr:
                            R.check(abs(float(outr[0]) - exp) <= 1e-9 * max(exp, 1e-300), "thin_grid_unique_flux",
                                    {**desc, "what": "options dictionary re-used with another L", "L": Lval, "distance": float(outr[0]), "cost_of_unique_flux": exp}, group="options_reused")
                            R.count("options_dictionary_reused")
            continue

        if fam == "minimum":
            wimg = weight_image(shape, h, cw) if cw is not None else None
            ok, out = R.guarded("true_minimum_bound", lambda: solve(c["method"], (m1, m2), c["l1"], c["mob"], weight=wimg, num_iter=int(rng.choice([3, 8, 25]))))
            if ok and out[1].get("vf_degenerate"):
                R.skip("degenerate_mobility:linear_backend_precision_lost")
            elif ok:
                lb, info = TR.certified_lower_bound(M, f, c["l1"], 1.0 if cw is None else cw, seed=c["id"])
                if info.get("dual_infeasibility", 0.0) > 1e-9 * max(abs(lb), 1e-300):
                    R.skip("certificate_not_feasible_to_rounding")
                else:
                    R.check(out[0] >= lb - 1e-9 * max(abs(lb), 1e-300), "true_minimum_bound",
                            {**desc, "distance": out[0], "certified_lower_bound": lb, "primal_upper": info.get("primal_upper"), "cycles": info.get("cycles")})
                    R.count("certificate_gap_below_1e-3", 1 if info.get("primal_upper", 1e300) - lb <= 1e-3 * max(abs(lb), 1e-300) else 0)
                fm = TR.first_moment_bound(M, M.flat(b - a), 1.0 if cw is None else cw)
                R.check(out[0] >= fm - 1e-9 * max(fm, abs(out[0])), "first_moment_bound", {**desc, "distance": out[0], "bound": fm})
                if c["id"] % 16 == 0:
                    R.sample({**desc, "distance": out[0], "certified_lower_bound": lb})
            continue

        # ---------------------------------------------------------------- laws
        method, l1, mob = c["method"], c["l1"], c["mob"]
        ok, base = R.guarded("solve", lambda: solve(method, (m1, m2), l1, mob))
        if not ok:
            continue
        d0 = base[0]
        sc = max(abs(d0), 1e-300)
        if base[1].get("vf_degenerate"):
            R.skip("degenerate_mobility:linear_backend_precision_lost")
            continue
        grp = f"{method}/{mob}"
        fm = TR.first_moment_bound(M, M.flat(b - a))
        R.check(d0 >= fm - 1e-9 * max(fm, sc), "first_moment_bound", {**desc, "distance": d0, "bound": fm}, group=grp)
        # swap
        ok, sw = R.guarded("solve", lambda: solve(method, (m2, m1), l1, mob))
        if ok and not sw[1].get("vf_degenerate"):
            R.check(abs(sw[0] - d0) <= 1e-12 * sc, "swap_symmetric", {**desc, "d12": d0, "d21": sw[0]}, group=grp)
        # ... and with one solver object serving both directions and the first direction once more (as in a distance
        # matrix): the three values are those of fresh objects
        if c["id"] % 2 == 0 and ok and not sw[1].get("vf_degenerate"):
            def one_object():
                w_ = wass.solver_class(darsia, method)(darsia.generate_grid(m1), None, wass.make_options(darsia, method, l1, mob, "pressure", "direct", 0, 8, None))
                return float(w_(m1, m2)[0]), float(w_(m2, m1)[0]), float(w_(m1, m2)[0])

            ok1, tri = R.guarded("solve", one_object)
            if ok1:
                R.check(abs(tri[0] - d0) <= 1e-12 * sc and abs(tri[2] - d0) <= 1e-12 * sc and abs(tri[1] - sw[0]) <= 1e-12 * sc, "swap_symmetric",
                        {**desc, "what": "one solver object serves (a,b), (b,a), (a,b)", "values": list(tri), "fresh_objects": [d0, sw[0]]}, group=grp + "/one_object")
                R.count("one_object_both_directions")
        # scaling of both masses
        cc = c["c"]
        s1, s2 = wass.images(darsia, cc * a, cc * b, h)
        # the absolute regularisation (eps) of vanishing flux norms is not rescaled with the masses and the
        # regularised systems are ill-conditioned, so equivariance holds to ~1e-10 only, also for powers of two
        tol = 1e-8
        if method == "newton":
            ok, scd = R.guarded("solve", lambda: solve(method, (s1, s2), l1, mob))
            if ok and not scd[1].get("vf_degenerate"):
                R.check(abs(scd[0] - cc * d0) <= tol * cc * sc, "scaling_linear", {**desc, "law": "mass x c (Newton)", "scaled": scd[0], "c_times_base": cc * d0}, group=grp)
        else:
            ok, scd = R.guarded("solve", lambda: solve(method, (s1, s2), l1, mob, extra={"L": cc * 1.0}))
            if ok and not scd[1].get("vf_degenerate"):
                R.check(abs(scd[0] - cc * d0) <= tol * cc * sc, "scaling_linear", {**desc, "law": "mass x c with L x c (Bregman)", "scaled": scd[0], "c_times_base": cc * d0}, group=grp)
            # ... and with the penalty left as it is (what a user gets who only rescales the masses): the property states
            # linear scaling "converged or not"; the fixed-penalty iteration is not scale-equivariant before convergence,
            # which is recorded as a finding of its own (the law with L scaled along, above, stays the regression oracle)
            ok, scf = R.guarded("solve", lambda: solve(method, (s1, s2), l1, mob))
            if ok and not scf[1].get("vf_degenerate"):
                R.check(abs(scf[0] - cc * d0) <= tol * cc * sc, "scaling_linear", {**desc, "law": "mass x c with the penalty L unchanged (Bregman)", "scaled": scf[0], "c_times_base": cc * d0,
                                                                                   "relative_deviation": (scf[0] - cc * d0) / (cc * sc)},
                        key="C05:bregman_fixed_penalty_not_mass_equivariant_before_convergence", group=grp + "/fixed_L")
        # constant cell weight (every fourth case: an integer weight held in an 8-bit image, as label-derived weights are)
        if c["id"] % 4 == 1:
            cw = float(int(rng.choice([2, 3, 16, 20, 40])))
            wimg = darsia.Image(np.full(shape, int(cw), dtype=np.uint8), space_dim=len(shape), dimensions=[shape[d] * h[d] for d in range(len(shape))], scalar=True)
            R.count("weights_in_8bit_images")
        else:
            wimg = weight_image(shape, h, cw)
        if method == "newton":
            ok, wd = R.guarded("solve", lambda: solve(method, (m1, m2), l1, mob, weight=wimg))
            if ok and not wd[1].get("vf_degenerate"):
                R.check(abs(wd[0] - cw * d0) <= 1e-8 * cw * sc, "scaling_linear", {**desc, "law": "constant cell weight (Newton)", "weighted": wd[0], "c_times_base": cw * d0}, group=grp)
                fmw = TR.first_moment_bound(M, M.flat(b - a), cw)
                R.check(wd[0] >= fmw - 1e-9 * max(fmw, abs(wd[0])), "first_moment_bound", {**desc, "distance": wd[0], "bound": fmw, "weight": cw}, group=grp)
        else:
            ok, wd = R.guarded("solve", lambda: solve(method, (m1, m2), l1, mob, weight=wimg))
            if ok and not wd[1].get("vf_degenerate"):
                fmw = TR.first_moment_bound(M, M.flat(b - a), cw)
                R.check(wd[0] >= fmw - 1e-9 * max(fmw, abs(wd[0])), "first_moment_bound", {**desc, "distance": wd[0], "bound": fmw, "weight": cw}, group=grp)
                # a constant weight rescales the cost functional and every face weight by the same factor; with the
                # penalty L unchanged the Bregman iterates (fluxes) are the same, so the distance is c times the base
                R.check(abs(wd[0] - cw * d0) <= 1e-8 * cw * sc, "scaling_linear", {**desc, "law": "constant cell weight (Bregman, same L)", "weighted": wd[0], "c_times_base": cw * d0}, group=grp)
        # front-end == back-end
        ok, fe = R.guarded("frontend", lambda: solve(method, (m1, m2), l1, mob, frontend=True))
        if ok:
            R.check(fe[0] == d0, "frontend_equals_backend", {**desc, "frontend": fe[0], "backend": d0}, group=grp)
        ok, few = R.guarded("frontend", lambda: solve(method, (m1, m2), l1, mob, weight=wimg, frontend=True))
        if ok and wd is not None:
            R.check(few[0] == wd[0], "frontend_equals_backend", {**desc, "frontend_weighted": few[0], "backend_weighted": wd[0]}, group=grp)
        if c["id"] % 16 == 0:
            R.sample({**desc, "distance": d0, "swap": sw[0] if sw else None, "first_moment": fm})


MANIFEST = {
    "technique": "boundary monitors on wasserstein_distance / solver classes / EMD with paired-execution metric-law oracles, first-moment bound, weak-duality certificate of the true discrete minimum, independent unique-flux cost on thin grids",
    "level_text": "Distances returned by the real front-end and back-ends on generated equal-mass pairs are judged by oracles that need no reference value: zero on identical inputs for all 45 method/L1/mobility combinations, swap symmetry, linear scaling (masses, penalty scaled along, constant weight), the first-moment bound on every run converged or not, a certified (dual-feasible) lower bound of the true discrete minimum on grids with up to 12 flux cycles, the independently computed cost of the unique mass-conserving flux on every 1-D / one-cell-thin grid up to 40 cells, front-end == back-end bitwise, and the physical-unit laws of the OpenCV earth-mover back-end.",
    "level_note": "Inputs are sampled; Anderson acceleration is off here (its recorded finding belongs to C04); Bregman scaling is judged with the penalty L scaled along (exact equivariance), not with a fixed penalty.",
    "design_ref": "DESIGN.md section 3, C05",
}
