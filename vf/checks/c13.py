"""C13 - concentration analysis zeroes the baseline and applies its stages in order.

Monitors: (1) boundary wrappers on the six private stage methods of
ConcentrationAnalysis logging {stage, input digest, output digest} per call; (2)
spy stage objects (reduction, balancing, restoration, model) that log the digest
of what they receive; (3) a snapshot of the probe before/after.  Offline, per
call: a trace automaton (documented stage order, each stage fed with the
previous stage's output) and a numerical oracle that recomputes
model(restoration(balancing(cleaning(reduction(difference))))) from the spies'
pure functions.
"""

from __future__ import annotations

import numpy as np

LEVEL = "exploration"
EXHAUSTIVE = {"quick": True, "thorough": True}
RULE = (
    "full factorial over the stage lattice: reduction / balancing / restoration / model each present or absent (2^4) x stage "
    "order (restoration->model | model->restoration) x diff option {absolute, positive, negative, plain} = 128 configurations, "
    "each on N random image sets (quick 3, thorough 30): scalar or RGB, shapes 4..32, dtype uint8 / uint16 / float32 / float64, "
    "0..3 extra baselines for the cleaning filter; stages are spies (pure functions mapping 0 to 0, plus one balancing variant "
    "with an offset that is excluded from the zero clause) and, in part of the cases, the real darsia TVD / ClipModel / "
    "LinearModel / MonochromaticReduction. The configuration lattice is enumerated completely; images are sampled. "
    "distinct = (configuration, payload, dtype, number of baselines); non-trivial = at least one stage present"
)
TOLERANCES = {"result vs recomputed composition": "1e-6 * max(1, |signal|) (float32 inside skimage.compare_images for 'absolute')",
              "positive/negative/absolute/plain identities": "1e-6", "baseline -> zero": "exact 0", "stage chaining": "bitwise digests"}
ASSUMPTIONS = [
    "integer images are promoted with skimage.img_as_float (the documented conversion) before subtraction",
    "the cleaning filter is the element-wise maximum over the extra baselines of the reduced difference to the first baseline, floored at 0",
]
FLOORS = {
    "quick": {"callers_baseline_overwritten_after_construction": 100, "analysis_without_baseline": 20, "cleaning_filter_learnt_again": 70, "restoration_is_configured_method": 30, "earlier_result_intact": 300, "probe_object_reused_with_new_content": 60, "baseline_list_untouched": 350, "second_analysis_from_same_baselines": 100, "trace_automaton": 350, "result_is_composition": 220, "baseline_maps_to_zero": 250, "probe_unchanged": 350, "diff_option_identities": 60},
    "thorough": {"callers_baseline_overwritten_after_construction": 1000, "analysis_without_baseline": 200, "cleaning_filter_learnt_again": 700, "restoration_is_configured_method": 300, "earlier_result_intact": 3000, "probe_object_reused_with_new_content": 600, "baseline_list_untouched": 3500, "second_analysis_from_same_baselines": 1000, "trace_automaton": 3500, "result_is_composition": 2200, "baseline_maps_to_zero": 2500, "probe_unchanged": 3500, "diff_option_identities": 600},
}
DIFFS = ["absolute", "positive", "negative", "plain"]


def shards(tier, seed):
    k = 16
    reps = 3 if tier == "quick" else 30
    cfgs = [{"red": r, "bal": b, "res": s, "mod": m, "order": o, "diff": d} for r in (0, 1) for b in (0, 1) for s in (0, 1) for m in (0, 1) for o in (True, False) for d in DIFFS]
    items = [{**c, "rep": rep, "id": i * reps + rep} for i, c in enumerate(cfgs) for rep in range(reps)]
    return [{"shard": i, "items": items[i::k]} for i in range(k)]


def run_shard(spec, R):
    import skimage
    import skimage.restoration

    import darsia

    from vf.attach import wrap
    from vf.events import digest
    from vf.gen.images import rng_for
    from vf.snapshots import snap

    trace = []
    CA = darsia.ConcentrationAnalysis

    def mk(name):
        def before(a, k):
            arg = a[1]
            return digest(arg.img if hasattr(arg, "img") else arg)

        def after(tok, a, k, res, exc):
            trace.append(("method", name, tok, None if exc else digest(res)))

        wrap(CA, name, before, after)

    for nm in ("_subtract_background", "_reduce_signal", "_clean_signal", "_balance_signal", "_restore_signal", "_convert_signal"):
        mk(nm)

    class Spy:
        def __init__(self, name, fn):
            self.name, self.fn = name, fn

        def __call__(self, x, *args):
            out = self.fn(x)
            trace.append(("spy", self.name, digest(x), digest(out)))
            return out

    for it in spec["items"]:
        if not R.want(["item", it["id"]]):
            continue
        rng = rng_for(spec["seed"], "C13", 0, it["id"])
        rgb = bool(rng.integers(0, 2))
        dtype = [np.uint8, np.uint16, np.float32, np.float64][int(rng.integers(0, 4))]
        shp = (int(rng.integers(4, 33)), int(rng.integers(4, 33)))
        nextra = int(rng.integers(0, 4))
        use_real = bool(rng.random() < 0.3)

        mixed = bool(rng.random() < 0.3)  # every image of the case (baselines, probe) draws its own dtype

        def rnd():
            full = shp + ((3,) if rgb else ())
            dt = dtype if not mixed else [np.uint8, np.uint16, np.float32, np.float64][int(rng.integers(0, 4))]
            if np.issubdtype(dt, np.integer):
                return rng.integers(0, np.iinfo(dt).max, size=full, endpoint=True).astype(dt)
            return rng.random(full).astype(dt)

        def image(arr):
            if rgb:
                return darsia.OpticalImage(arr, dimensions=[1.0, 2.0], color_space="RGB", name="x")
            return darsia.ScalarImage(arr, dimensions=[1.0, 2.0], name="x")

        base_arrs = [rnd() for _ in range(1 + nextra)]
        if nextra and it["id"] % 4 == 3 and not np.issubdtype(base_arrs[0].dtype, np.bool_):
            # extra baselines that are nowhere brighter than the reference baseline (their positive / plain difference is
            # nowhere positive, the learned cleaning threshold is identically zero)
            for q in range(1, 1 + nextra):
                if base_arrs[q].dtype == base_arrs[0].dtype:
                    base_arrs[q] = np.minimum(base_arrs[q], base_arrs[0])
        probe_arr = rnd()
        # ---- stages
        wred = np.array([0.5, 0.25, 0.25])
        offset_bal = bool(it["bal"] and rng.random() < 0.25)
        if use_real:
            red = darsia.MonochromaticReduction(color="gray") if (it["red"] and rgb) else (Spy("reduction", lambda x: x * 0.5) if it["red"] else None)
            bal = darsia.LinearModel(scaling=1.7, offset=0.0) if it["bal"] else None
            offset_bal = False
            tvd_method = ["chambolle", "anisotropic bregman", "isotropic bregman"][it["id"] % 3]
            res = darsia.TVD(method=tvd_method, weight=0.05, max_num_iter=10, eps=1e-6) if it["res"] else None
            mod = darsia.ClipModel(**{"min value": 0.0, "max value": 0.6}) if it["mod"] else None
        else:
            red = Spy("reduction", (lambda x: x @ wred) if rgb else (lambda x: 0.5 * x)) if it["red"] else None
            bal = Spy("balancing", (lambda x: 2.0 * x + 0.125) if offset_bal else (lambda x: 2.0 * x)) if it["bal"] else None
            res = Spy("restoration", lambda x: 0.5 * (x + np.roll(x, 1, axis=0))) if it["res"] else None
            mod = Spy("model", lambda x: 3.0 * x * x + x) if it["mod"] else None
        cfg = {"reduction": bool(it["red"]), "balancing": bool(it["bal"]), "restoration": bool(it["res"]), "model": bool(it["mod"]), "restoration->model": it["order"],
               "diff option": it["diff"], "rgb": rgb, "dtype": np.dtype(dtype).name if not mixed else "mixed:" + "/".join(a.dtype.name for a in base_arrs + [probe_arr]), "shape": list(shp), "extra_baselines": nextra, "real_stages": use_real, "offset_balancing": offset_bal}
        key = None
        if rgb and nextra > 0 and not (it["red"] and (not use_real or True) and _reduces(red)):
            key = "C13:cleaning_filter_needs_reduced_signal"
        bases = [image(a.copy()) for a in base_arrs]
        probe = image(probe_arr.copy())
        ok, ca = R.guarded("construct", lambda: darsia.ConcentrationAnalysis(bases if nextra else bases[0], red, bal, res, mod, None, **{"diff option": it["diff"], "restoration -> model": it["order"]}),
                           key=lambda e, w: key)
        if not ok:
            continue
        # the caller's list of baselines is an argument like any other: same objects, same content afterwards
        R.check(len(bases) == 1 + nextra and all(np.array_equal(b.img, a) and b.img.dtype == a.dtype for b, a in zip(bases, base_arrs)), "baseline_list_untouched",
                lambda: {**cfg, "length_after": len(bases)})
        before = snap(probe)
        del trace[:]
        ok, out = R.guarded("call", lambda: ca(probe), key=lambda e, w: key)
        tr = list(trace)
        R.check(snap(probe) == before and np.array_equal(probe.img, probe_arr), "probe_unchanged", cfg)
        if not ok:
            continue
        grp = f"{it['diff']}/{'rm' if it['order'] else 'mr'}"

        # ------------------------------------------------------------ oracle
        fl = lambda a: skimage.img_as_float(a) if np.issubdtype(a.dtype, np.integer) else a  # noqa: E731
        b0 = fl(base_arrs[0])

        def difference(arr):
            a = fl(arr)
            if it["diff"] == "positive":
                return np.clip(a.astype(float) - b0, 0, None)
            if it["diff"] == "negative":
                return np.clip(b0 - a.astype(float), 0, None)
            if it["diff"] == "absolute":
                return np.abs(a.astype(float) - b0)
            return a.astype(float) - b0

        f_red = (lambda x: x) if red is None else (red.fn if isinstance(red, Spy) else red)
        f_bal = (lambda x: x) if bal is None else (bal.fn if isinstance(bal, Spy) else bal)
        f_res = (lambda x: x) if res is None else (res.fn if isinstance(res, Spy) else res)
        f_mod = (lambda x: x) if mod is None else (mod.fn if isinstance(mod, Spy) else mod)
        thr = None
        if nextra:
            thr = 0.0
            for a in base_arrs[1:]:
                thr = np.maximum(thr, f_red(difference(a)))
        sig = f_red(difference(probe_arr))
        cl = sig if thr is None else np.clip(sig - thr, 0, None)
        ba = f_bal(cl)
        if not use_real:
            exp = f_mod(f_res(ba)) if it["order"] else f_res(f_mod(ba))
            sc = max(1.0, float(np.max(np.abs(exp))))
            good = np.shape(out.img) == np.shape(exp) and bool(np.all(np.abs(np.asarray(out.img, float) - exp) <= 2e-6 * sc * (9 if it["mod"] else 1)))
            R.check(good, "result_is_composition", lambda: {**cfg, "max_diff": float(np.max(np.abs(np.asarray(out.img, float) - exp))) if np.shape(out.img) == np.shape(exp) else "shape"},
                    key=key, group=grp)
        else:
            R.ok("result_is_composition:real_stages_traced_only")

        # a result handed out stays what it was when the same analysis object processes another probe
        if ok:
            first_out = np.array(out.img, copy=True)
            other_probe = image(rnd())
            # (another probe of the campaign: other name, other physical size and place)
            other_probe.name = "y"
            other_probe.dimensions = [1.5, 0.5]
            other_probe.origin = darsia.Coordinate(np.array([3.0, 4.5]))
            ok_o, _o = R.guarded("call", lambda: ca(other_probe), key=lambda e, w: key)
            if ok_o:
                R.check(np.allclose(_o.dimensions, [1.5, 0.5]) and np.array_equal(np.asarray(_o.origin, float), [3.0, 4.5]) and _o.name == "y", "result_carries_probe_metadata",
                        lambda: {**cfg, "what": "second probe of one analysis object, other name / dimensions / origin", "dimensions": [float(v) for v in _o.dimensions], "origin": np.asarray(_o.origin, float).tolist(), "name": _o.name},
                        group="second_probe")
                R.check(np.array_equal(np.asarray(out.img), first_out, equal_nan=True), "earlier_result_intact", cfg, key=key, group=grp)
            del trace[len(tr):]
        # a second analysis built from the same list of baselines behaves like the first
        if nextra and ok and it["id"] % 2 == 0:
            ok2, cb = R.guarded("construct", lambda: darsia.ConcentrationAnalysis(bases, red, bal, res, mod, None, **{"diff option": it["diff"], "restoration -> model": it["order"]}),
                                key=lambda e, w: key)
            if ok2:
                ok2, out2 = R.guarded("call", lambda: cb(image(probe_arr.copy())), key=lambda e, w: key)
                if ok2:
                    R.check(np.array_equal(np.asarray(out2.img), np.asarray(out.img)), "second_analysis_from_same_baselines", cfg, key=key, group=grp)
            del trace[len(tr):]

        # ----------------------------------------------------- trace automaton
        meth = [t for t in tr if t[0] == "method"]
        names = [t[1] for t in meth]
        want = ["_subtract_background", "_reduce_signal", "_clean_signal", "_balance_signal"] + (["_restore_signal", "_convert_signal"] if it["order"] else ["_convert_signal", "_restore_signal"])
        ok_order = names == want
        chained = ok_order and all(meth[i][2] == meth[i - 1][3] for i in range(1, len(meth))) and meth[-1][3] == digest(out.img)
        R.check(ok_order and chained, "trace_automaton", lambda: {**cfg, "observed_order": names, "expected_order": want,
                                                               "broken_link": next((meth[i][1] for i in range(1, len(meth)) if meth[i][2] != meth[i - 1][3]), None) if ok_order else None},
                key=key, group=grp)
        spies = [t for t in tr if t[0] == "spy"]
        exp_spies = [n for n, present in (("reduction", isinstance(red, Spy)), ("balancing", isinstance(bal, Spy))) if present]
        exp_spies += [n for n in (["restoration", "model"] if it["order"] else ["model", "restoration"]) if isinstance({"restoration": res, "model": mod}[n], Spy)]
        sp_ok = [s[1] for s in spies] == exp_spies
        if sp_ok and ok_order:
            md = {m[1]: m for m in meth}
            link = {"reduction": "_reduce_signal", "balancing": "_balance_signal", "restoration": "_restore_signal", "model": "_convert_signal"}
            sp_ok = all(s[2] == md[link[s[1]]][2] and s[3] == md[link[s[1]]][3] for s in spies)
        R.check(sp_ok, "spies_fed_by_their_stage", lambda: {**cfg, "spy_order": [s[1] for s in spies], "expected": exp_spies}, group=grp)
        R.event("analysis", config=cfg, order=names, spies=[s[1] for s in spies])

        # ------------------------------------------------------------ metadata
        md_ok = (np.allclose(out.dimensions, probe.dimensions) and np.array_equal(np.asarray(out.origin), np.asarray(probe.origin)) and out.name == probe.name
                 and out.space_dim == 2 and out.series == probe.series)
        reduced = out.img.ndim == probe.img.ndim - 1
        md_ok &= isinstance(out, darsia.ScalarImage) if reduced else (type(out) is type(probe))
        R.check(bool(md_ok), "result_carries_probe_metadata", lambda: {**cfg, "type": type(out).__name__, "out_ndim": out.img.ndim})

        # the caller goes on using his baseline image object after the analysis has been built (every third case
        # overwrites it in place): the analysis keeps the baseline it was built with
        if it["id"] % 3 == 2:
            if np.issubdtype(bases[0].img.dtype, np.floating):
                bases[0].img *= 0.5
            else:
                bases[0].img //= 2
            R.count("callers_baseline_overwritten_after_construction")
        # ---------------------------------------------------- baseline -> zero
        if not offset_bal:
            del trace[:]
            okb, outb = R.guarded("call", lambda: ca(image(base_arrs[0].copy())), key=lambda e, w: key)
            if okb:
                R.check(bool(np.all(outb.img == 0)), "baseline_maps_to_zero", lambda: {**cfg, "max_abs": float(np.max(np.abs(outb.img)))}, key=key, group=grp)
        # the same probe object, overwritten in place with the baseline's content, then analysed again (a probe is
        # identified by what it holds when it is analysed)
        if not offset_bal and it["id"] % 2 == 1 and probe.img.shape == base_arrs[0].shape:
            if probe.img.dtype == base_arrs[0].dtype:
                del trace[:]
                probe.img[...] = probe_arr
                R.guarded("call", lambda: ca(probe), key=lambda e, w: key)  # analysed with its original content ...
                probe.img[...] = base_arrs[0]  # ... then overwritten in place and analysed again
                okr, outr = R.guarded("call", lambda: ca(probe), key=lambda e, w: key)
                if okr:
                    R.check(bool(np.all(outr.img == 0)), "baseline_maps_to_zero", lambda: {**cfg, "what": "probe object overwritten in place with the baseline", "max_abs": float(np.max(np.abs(outr.img)))},
                            key=key, group=grp)
                    R.count("probe_object_reused_with_new_content")
        # ------------- the hue / saturation windowed reduction with non-default windows: value where hue and saturation
        # both lie inside their windows, zero elsewhere
        if rgb and it["id"] % 4 == 2:
            win = {"hue lower bound": float(rng.uniform(0.0, 0.3)), "hue upper bound": float(rng.uniform(0.6, 1.0)),
                   "saturation lower bound": float(rng.uniform(0.1, 0.5)), "saturation upper bound": float(rng.uniform(0.7, 1.0))}
            xh = rng.random(shp + (3,))
            okh, got_h = R.guarded("reduction", lambda: darsia.MonochromaticReduction(color="hsv", **win)(xh.copy()))
            if okh:
                hsv_ = skimage.color.rgb2hsv(xh)
                m_ = (hsv_[..., 0] > win["hue lower bound"]) & (hsv_[..., 0] < win["hue upper bound"]) & (hsv_[..., 1] > win["saturation lower bound"]) & (hsv_[..., 1] < win["saturation upper bound"])
                R.check(np.shape(got_h) == shp and np.array_equal(np.asarray(got_h), np.where(m_, hsv_[..., 2], 0.0)), "reduction_is_configured_window",
                        lambda: {**cfg, "windows": win, "pixels_differing": int(np.sum(np.asarray(got_h) != np.where(m_, hsv_[..., 2], 0.0)))}, group="hsv")
                R.count("hsv_windows")
        # ------------- a real restoration stage is the configured method with the configured parameters (the
        # documented wrappers of scikit-image's total-variation denoisers)
        if use_real and it["res"]:
            xr = rng.random(shp)
            okt, got_r = R.guarded("restoration", lambda: res(xr.copy()))
            if okt:
                if tvd_method == "chambolle":
                    exp_r = skimage.restoration.denoise_tv_chambolle(xr.copy(), weight=0.05, eps=1e-6, max_num_iter=10)
                else:
                    exp_r = skimage.restoration.denoise_tv_bregman(xr.copy(), weight=0.05, max_num_iter=10, eps=1e-6, isotropic=tvd_method.startswith("isotropic"))
                R.check(np.shape(got_r) == exp_r.shape and bool(np.allclose(np.asarray(got_r, float), exp_r, rtol=1e-12, atol=1e-12)), "restoration_is_configured_method",
                        lambda: {**cfg, "method": tvd_method, "max_diff": float(np.max(np.abs(np.asarray(got_r, float) - exp_r)))}, group=tvd_method)
        # ------------- the cleaning filter learnt again from another list of baselines handed to find_cleaning_filter
        # (the documented way to exchange it after construction); the next probe is the composition with that filter
        if not use_real and it["id"] % 3 != 0 and not (rgb and not (it["red"] and _reduces(red))):
            new_arrs = [rnd() for _ in range(int(rng.integers(1, 3)))]
            okf, _f = R.guarded("find_cleaning_filter", lambda: ca.find_cleaning_filter([image(a.copy()) for a in new_arrs]))
            if okf:
                okf, out3 = R.guarded("call", lambda: ca(image(probe_arr.copy())))
            if okf:
                thr3 = 0.0
                for a in new_arrs:
                    thr3 = np.maximum(thr3, f_red(difference(a)))
                ba3 = f_bal(np.clip(sig - thr3, 0, None))
                exp3 = f_mod(f_res(ba3)) if it["order"] else f_res(f_mod(ba3))
                sc3 = max(1.0, float(np.max(np.abs(exp3))))
                good3 = np.shape(out3.img) == np.shape(exp3) and bool(np.all(np.abs(np.asarray(out3.img, float) - exp3) <= 2e-6 * sc3 * (9 if it["mod"] else 1)))
                R.check(good3, "cleaning_filter_learnt_again", lambda: {**cfg, "new_baselines_dtypes": [a.dtype.name for a in new_arrs],
                                                                        "max_diff": float(np.max(np.abs(np.asarray(out3.img, float) - exp3))) if np.shape(out3.img) == np.shape(exp3) else "shape",
                                                                        "learnt_threshold_max": float(np.max(ca.threshold_cleaning_filter)), "expected_threshold_max": float(np.max(thr3))}, group=grp)
        # ---------------------------------- diff option identities (no stages)
        if not any((it["red"], it["bal"], it["res"], it["mod"])):
            outs = {}
            for d in DIFFS:
                c2 = darsia.ConcentrationAnalysis(image(base_arrs[0].copy()), None, None, None, None, None, **{"diff option": d})
                okd, od = R.guarded("call", lambda: c2(image(probe_arr.copy())))
                if okd:
                    outs[d] = np.asarray(od.img, float)
            # without any baseline the probe itself is the difference (integer probes promoted like everywhere else)
            outs0 = {}
            for d in DIFFS:
                c0 = darsia.ConcentrationAnalysis(None, None, None, None, None, None, **{"diff option": d})
                ok0, o0 = R.guarded("call", lambda: c0(image(probe_arr.copy())))
                if ok0:
                    outs0[d] = np.asarray(o0.img, float)
            if len(outs0) == 4:
                pf = fl(probe_arr).astype(float)
                R.check(bool(np.allclose(outs0["plain"], pf, atol=1e-6, rtol=0)) and bool(np.allclose(outs0["positive"], np.clip(pf, 0, None), atol=1e-6, rtol=0))
                        and bool(np.allclose(outs0["negative"], np.clip(-pf, 0, None), atol=1e-6, rtol=0)) and bool(np.allclose(outs0["absolute"], np.abs(pf), atol=1e-6, rtol=0)),
                        "diff_option_identities", lambda: {**cfg, "what": "analysis without a baseline", "max_plain": float(np.max(outs0["plain"])), "max_negative": float(np.max(outs0["negative"]))}, group="no_baseline")
                R.count("analysis_without_baseline")
            if len(outs) == 4:
                R.check(bool(np.allclose(outs["positive"] + outs["negative"], outs["absolute"], atol=1e-6, rtol=0)) and bool(np.allclose(outs["positive"] - outs["negative"], outs["plain"], atol=1e-6, rtol=0))
                        and bool(np.all(outs["positive"] >= 0)) and bool(np.all(outs["negative"] >= 0)), "diff_option_identities", cfg)
                R.count("diff_option_identities", 3)
        R.sig([cfg["reduction"], cfg["balancing"], cfg["restoration"], cfg["model"], it["order"], it["diff"], rgb, cfg["dtype"], nextra, use_real],
              nontrivial=any((it["red"], it["bal"], it["res"], it["mod"])), cls=grp)
        if it["id"] % 97 == 0:
            R.sample({"config": cfg, "observed_order": names})


def _reduces(red):
    """Does the configured reduction turn RGB into a scalar signal?"""
    return red is not None and getattr(red, "name", "") == "reduction" or type(red).__name__ == "MonochromaticReduction"


MANIFEST = {
    "technique": "boundary wrappers on the six stage methods plus spy stage objects recording input/output digests; offline trace automaton (order and chaining) and recomputed-composition oracle; probe snapshot",
    "level_text": "All 128 configurations of the stage lattice (each stage present/absent, both orders, four diff options) are executed on random scalar and RGB images of four dtypes with 0-3 extra baselines. Each call leaves a trace of the private stage methods and of the spy stages with digests of what went in and out; the offline checker requires the documented order, that every stage was fed exactly the previous stage's output, that the returned image is the last stage's output and equals the composition recomputed from the spies' pure functions, that the baseline maps to zero, that the probe snapshot is unchanged and that the result carries the probe's metadata as a scalar image iff a channel was removed.",
    "level_note": "The configuration lattice is exhaustive, images are sampled; with real darsia stages (30% of the cases) only order and chaining are judged, not the recomputed values.",
    "design_ref": "DESIGN.md section 3, C13",
}
