"""Attach monitors to the real darsia functions from the harness (no source edit).

Contracts are icontract postconditions/snapshots whose condition functions
*record* into the Recorder and return True ("record and return True" idiom):
the verdict is taken by the driver from the recorded events, never from an
exception unwinding through the code under observation.
"""

from __future__ import annotations

import functools
import os

import icontract


class MonitorError(Exception):
    """Raised by icontract if a condition function itself returns False."""


def enabled() -> bool:
    return os.environ.get("DARSIA_VERIF", "") == "1"


def attach_post(owner, name: str, cond, R=None, snapshots: dict | None = None):
    """icontract.ensure(cond) on ``owner.name``; optional icontract.snapshot captures.

    ``cond`` must use the wrapped function's own parameter names (+ ``result``, ``OLD``).
    A condition that raises is itself a monitor bug -> counted as 'monitor_error', which makes the run INCONCLUSIVE (vf.core).
    """
    if not enabled():
        return None
    orig = getattr(owner, name)
    raw = orig.__func__ if isinstance(orig, (staticmethod, classmethod)) else orig

    @functools.wraps(cond)
    def safe_cond(*a, **k):
        try:
            r = cond(*a, **k)
        except Exception as e:  # monitor bug, not a library bug: the run is inconclusive, never a violation
            if R is not None:
                R.count("monitor_error")
                R.skip(f"monitor_error:{name}:{type(e).__name__}: {e}"[:160])
            return True
        return True if r is None else r

    # keep the signature icontract inspects
    safe_cond.__signature__ = __import__("inspect").signature(cond)
    wrapped = icontract.ensure(safe_cond, error=MonitorError)(raw)
    for snap_name, capture in (snapshots or {}).items():
        wrapped = icontract.snapshot(capture, name=snap_name)(wrapped)
    setattr(owner, name, wrapped)
    return orig


def wrap(owner, name: str, before=None, after=None):
    """Plain boundary wrapper (used where a contract needs call-local state):
    ``before(args, kwargs) -> token``; ``after(token, args, kwargs, result, exc)``."""
    orig = getattr(owner, name)

    @functools.wraps(orig)
    def w(*a, **k):
        tok = before(a, k) if before else None
        try:
            res = orig(*a, **k)
        except Exception as e:
            if after:
                after(tok, a, k, None, e)
            raise
        if after:
            after(tok, a, k, res, None)
        return res

    setattr(owner, name, w)
    return orig
