"""Driver side of the runtime-monitoring framework.

``./check Cxx quick|thorough`` -> plan shards -> run each shard in a fresh
``/venv/bin/python -B`` subprocess against the *current working tree* of the
repository -> aggregate what the monitors observed -> classify violations
against known_findings.json -> write evidence -> verdict (0 held, 1 violated,
2 inconclusive).
"""

from __future__ import annotations

import concurrent.futures as cf
import hashlib
import importlib
import json
import os
import shutil
import subprocess
import sys
import time
from collections import Counter
from pathlib import Path

ROOT = Path(__file__).resolve().parent.parent  # the /verif checkout
REPO = Path(os.environ.get("VERIF_REPO", "/repo")).resolve()
PY = os.environ.get("VERIF_PYTHON", "/venv/bin/python")
ALL = [f"C{i:02d}" for i in range(1, 21)]
NPROC = int(os.environ.get("VERIF_JOBS", "16"))


def worker_env(run_dir: Path) -> dict:
    env = dict(os.environ)
    env.update(
        PYTHONPATH=f"{REPO}/src:{ROOT}:{ROOT}/.deps",
        PYTHONHASHSEED="0",
        PYTHONDONTWRITEBYTECODE="1",
        NUMBA_CACHE_DIR=str(ROOT / "run" / "numba"),
        MPLBACKEND="Agg",
        DARSIA_VERIF="1",
        VERIF_REPO=str(REPO),
        OMP_NUM_THREADS="1",
        OPENBLAS_NUM_THREADS="1",
        MKL_NUM_THREADS="1",
        NUMBA_NUM_THREADS="1",
        PYTHONWARNINGS="ignore",
        VERIF_RUN_DIR=str(run_dir),
    )
    return env


def ensure_deps() -> None:
    if not (ROOT / ".deps" / "icontract").is_dir():
        subprocess.run(["sh", str(ROOT / "setup.sh")], check=True, stdout=subprocess.DEVNULL)


def load_known() -> list:
    p = ROOT / "known_findings.json"
    if not p.exists():
        return []
    return json.loads(p.read_text()).get("findings", [])


def _run_one(prop: str, idx: int, spec: dict, run_dir: Path, timeout: float) -> dict:
    spec_path = run_dir / f"shard{idx:04d}.spec.json"
    out_path = run_dir / f"shard{idx:04d}.out.json"
    log_path = run_dir / f"shard{idx:04d}.log"
    spec_path.write_text(json.dumps(spec))
    t0 = time.time()
    try:
        with open(log_path, "w") as lf:
            cp = subprocess.run(
                [PY, "-B", "-m", "vf.worker", prop, str(spec_path), str(out_path)],
                env=worker_env(run_dir),
                cwd=str(run_dir),
                stdout=lf,
                stderr=subprocess.STDOUT,
                timeout=timeout,
            )
        rc = cp.returncode
    except subprocess.TimeoutExpired:
        return {"shard": idx, "status": "timeout", "wall": time.time() - t0}
    if rc != 0 or not out_path.exists():
        tail = ""
        try:
            tail = log_path.read_text()[-1500:]
        except Exception:
            pass
        return {"shard": idx, "status": "crash", "rc": rc, "tail": tail, "wall": time.time() - t0}
    res = json.loads(out_path.read_text())
    res["shard"] = idx
    res["status"] = "ok"
    res["wall"] = time.time() - t0
    return res


def digest_obj(obj) -> str:
    return hashlib.sha1(json.dumps(obj, sort_keys=True, default=str).encode()).hexdigest()[:16]


def run_check(prop: str, tier: str, seed: int, only_spec: dict | None = None) -> int:
    t0 = time.time()
    ensure_deps()
    mod = importlib.import_module(f"vf.checks.{prop.lower()}")
    tag = os.environ.get("VERIF_OUT_TAG")  # scratch runs (break tests on worktrees) must not touch evidence/
    run_dir = (ROOT / "run" / tag / prop) if tag else (ROOT / "run" / prop)
    shutil.rmtree(run_dir, ignore_errors=True)
    run_dir.mkdir(parents=True, exist_ok=True)
    (ROOT / "run" / "numba").mkdir(parents=True, exist_ok=True)
    (ROOT / "evidence").mkdir(exist_ok=True)

    if only_spec is not None:
        specs = [only_spec]
    else:
        specs = mod.shards(tier, seed)
    for s in specs:
        s.setdefault("tier", tier)
        s.setdefault("seed", seed)
    timeout = float(getattr(mod, "SHARD_TIMEOUT", {}).get(tier, 1500))

    results = []
    with cf.ThreadPoolExecutor(max_workers=NPROC) as ex:
        futs = [ex.submit(_run_one, prop, i, s, run_dir, timeout) for i, s in enumerate(specs)]
        for f in cf.as_completed(futs):
            results.append(f.result())
    results.sort(key=lambda r: r["shard"])
    if getattr(mod, "FINALIZE", False) and only_spec is None:
        # offline checker over everything the shards recorded (runs after all of them)
        fspec = {"shard": len(specs), "finalize": True, "tier": tier, "seed": seed}
        specs.append(fspec)
        results.append(_run_one(prop, len(specs) - 1, fspec, run_dir, timeout))

    # ---------------------------------------------------------------- aggregate
    evaluations = 0
    sigs: set = set()
    counters: Counter = Counter()
    coverage: Counter = Counter()
    skipped: Counter = Counter()
    samples: list = []
    events_sample: list = []
    violations: list = []
    broken: list = []
    attach_zero: list = []
    for r in results:
        if r["status"] != "ok":
            broken.append(r)
            continue
        if r.get("crashed"):
            broken.append({"shard": r["shard"], "status": "monitor-crash", "rc": 0, "tail": r["crashed"]})
        evaluations += r["evaluations"]
        sigs.update(r["sigs"])
        counters.update(r["counters"])
        coverage.update(r["coverage"])
        skipped.update(r["skipped"])
        if len(samples) < 6:
            samples.extend(r["samples"][: max(1, 6 - len(samples))])
        if len(events_sample) < 8:
            events_sample.extend(r.get("events_sample", [])[:4])
        for v in r["violations"]:
            v["spec"] = specs[r["shard"]]
            violations.append(v)

    # ------------------------------------------------- classify against findings
    known = load_known()
    open_keys = {k["key"]: k for k in known if k["property"] == prop and k.get("status") == "open"}
    unlisted = []
    known_hits: Counter = Counter()
    known_witness: dict = {}
    for v in violations:
        key = v.get("key")
        if key is not None and key in open_keys:
            known_hits[key] += v.get("count", 1)
            known_witness.setdefault(key, v)
        else:
            unlisted.append(v)

    rep_dir = (ROOT / "run" / tag / "replays" / prop) if tag else (ROOT / "replays" / prop)
    out_lines = []
    first_replay = None
    if unlisted:
        rep_dir.mkdir(parents=True, exist_ok=True)
        seen = set()
        for v in unlisted:
            k = (v.get("clause"), v.get("key"))
            if k in seen:  # one replay file per (clause, key) is enough
                continue
            seen.add(k)
            rp = {
                "property": prop,
                "tier": tier,
                "seed": seed,
                "clause": v.get("clause"),
                "key": v.get("key"),
                "case": v.get("case"),
                "detail": v.get("detail"),
                "spec": dict(v["spec"], only=v.get("case")),
            }
            path = rep_dir / f"{digest_obj([rp['clause'], rp['case'], rp['spec']])}.json"
            path.write_text(json.dumps(rp, indent=1, default=str))
            if first_replay is None:
                first_replay = path
            out_lines.append(
                f"VIOLATION property={prop} replay={path} clause={v.get('clause')} detail={str(v.get('detail'))[:300]}"
            )

    # --------------------------------------------------------------- reach floors
    floors = dict(getattr(mod, "FLOORS", {}).get(tier, {}))
    if only_spec is not None:
        floors = {}
    unreached = {k: (counters.get(k, 0), f) for k, f in floors.items() if counters.get(k, 0) < f}

    inconclusive_reasons = []
    if broken:
        for b in broken[:3]:
            inconclusive_reasons.append(
                f"shard {b['shard']} {b['status']} rc={b.get('rc')} {str(b.get('tail', ''))[-400:]!r}"
            )
    if unreached:
        inconclusive_reasons.append(f"reach floors not met: {unreached}")
    if counters.get("monitor_error", 0):
        inconclusive_reasons.append(f"a monitor's own condition raised {counters['monitor_error']} time(s) (see 'skipped' in the evidence): the machinery failed, no verdict")
    if len(sigs) < 2 and only_spec is None:
        inconclusive_reasons.append("fewer than 2 distinct non-trivial cases observed")

    level = getattr(mod, "LEVEL", "exploration")
    evidence = {
        "property_id": prop,
        "tier": tier,
        "seed": seed,
        "level": level,
        "coverage": {
            "evaluations": int(evaluations),
            "distinct_nontrivial": len(sigs),
            "rule": getattr(mod, "RULE", ""),
            "samples": samples[:6] or ["<none>"],
            "exhaustive": bool(getattr(mod, "EXHAUSTIVE", {}).get(tier, False)),
            "observed": {
                "monitor_events": dict(sorted(counters.items())),
                "reach_floors": floors,
                "class_histogram": dict(sorted(coverage.items())),
                "skipped": dict(sorted(skipped.items())),
                "known_finding_hits": dict(known_hits),
                "event_log_sample": events_sample[:8],
                "shards": len(specs),
                "shards_failed": len(broken),
            },
            "tolerances": getattr(mod, "TOLERANCES", {}),
        },
        "assumptions": list(getattr(mod, "ASSUMPTIONS", [])),
        "wall_s": round(time.time() - t0, 2),
        "violations": len(unlisted),
        "verdict": "violated" if unlisted else ("inconclusive" if inconclusive_reasons else "held"),
        "repo": str(REPO),
    }
    if only_spec is None:
        ev_path = (ROOT / "run" / tag / f"evidence-{prop}.json") if tag else (ROOT / "evidence" / f"{prop}.json")
        ev_path.write_text(json.dumps(evidence, indent=1, default=str))
        try:
            sys.path.insert(0, str(ROOT / ".deps"))
            import jsonschema  # type: ignore

            schema_p = Path("/root/.vp/EVIDENCE.schema.json")
            if not schema_p.exists():
                schema_p = ROOT / "schemas" / "EVIDENCE.schema.json"
            if schema_p.exists():
                jsonschema.validate(evidence, json.loads(schema_p.read_text()))
        except ImportError:
            pass
        except Exception as e:  # schema violation: report as inconclusive
            if not unlisted:
                inconclusive_reasons.append(f"evidence does not validate: {str(e)[:200]}")

    for key, n in sorted(known_hits.items()):
        # a replayable witness of every recorded finding that was hit in this run
        wdir = (ROOT / "run" / tag / "replays" / prop) if tag else (ROOT / "replays" / prop)
        wdir.mkdir(parents=True, exist_ok=True)
        v = known_witness[key]
        wpath = wdir / ("known-" + "".join(ch if ch.isalnum() else "_" for ch in key) + ".json")
        wpath.write_text(json.dumps({"property": prop, "tier": tier, "seed": seed, "known_finding": key, "clause": v.get("clause"), "case": v.get("case"),
                                     "detail": v.get("detail"), "spec": dict(v["spec"], only=v.get("case"))}, indent=1, default=str))
        print(f"KNOWN-FINDING: property={prop} {key} ({n} hits; witness {wpath}) {open_keys[key]['what']}")
    print(
        f"[{prop} {tier} seed={seed}] evaluations={evaluations} distinct_nontrivial={len(sigs)} "
        f"monitors={dict(sorted(counters.items()))} skipped={dict(skipped)} wall={time.time() - t0:.1f}s"
    )
    if unlisted:
        for line in out_lines[:20]:
            print(line)
        print(f"[{prop}] {len(unlisted)} unlisted violation records")
        return 1
    if inconclusive_reasons:
        print(f"INCONCLUSIVE property={prop} reason={' | '.join(inconclusive_reasons)}")
        return 2
    print(f"HELD property={prop} on everything observed")
    return 0


def main(argv: list) -> int:
    if len(argv) >= 2 and argv[0] == "--replay":
        rp = json.loads(Path(argv[1]).read_text())
        return run_check(rp["property"], rp.get("tier", "quick"), int(rp.get("seed", 0)), only_spec=rp["spec"])
    if not argv:
        print("usage: check <Cxx|all> [quick|thorough] | --replay <file>")
        return 2
    tier = argv[1] if len(argv) > 1 else os.environ.get("VERIF_TIER", "quick")
    seed = int(os.environ.get("VERIF_SEED", "0"))
    props = ALL if argv[0] == "all" else [argv[0].upper()]
    rc = 0
    for p in props:
        try:
            r = run_check(p, tier, seed)
        except ModuleNotFoundError as e:
            print(f"INCONCLUSIVE property={p} reason=no check module ({e})")
            r = 2
        except Exception as e:  # a failure of the machinery itself is never a verdict on the library
            import traceback

            traceback.print_exc()
            print(f"INCONCLUSIVE property={p} reason=the check itself failed ({type(e).__name__}: {str(e)[:200]})")
            r = 2
        if r == 1 or (r == 2 and rc == 0):
            rc = r
    return rc
