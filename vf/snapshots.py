"""Deep structural snapshots of call arguments and global random state."""

from __future__ import annotations

import copy
import random

import numpy as np

from vf.events import digest


def snap(obj, depth=0):
    """Content snapshot that can be compared with == ."""
    import darsia

    if depth > 6:
        return ("deep", str(type(obj)))
    if isinstance(obj, darsia.Image):
        meta = {}
        for k in ("space_dim", "indexing", "dimensions", "origin", "series", "scalar", "date", "reference_date", "time", "name", "time_num", "time_dim",
                  "range_dim", "range_num", "original_dtype", "color_space"):
            if hasattr(obj, k):
                meta[k] = snap(getattr(obj, k), depth + 1)
        return ("Image", type(obj).__name__, str(obj.img.dtype), tuple(obj.img.shape), digest(obj.img), tuple(sorted(meta.items(), key=lambda kv: kv[0])))
    if isinstance(obj, np.ndarray):
        return ("ndarray", type(obj).__name__, str(obj.dtype), tuple(obj.shape), digest(obj) if obj.dtype != object else str(obj.tolist()))
    if isinstance(obj, (list, tuple)):
        return (type(obj).__name__, tuple(snap(x, depth + 1) for x in obj))
    if isinstance(obj, dict):
        return ("dict", tuple((str(k), snap(v, depth + 1)) for k, v in sorted(obj.items(), key=lambda kv: str(kv[0]))))
    if isinstance(obj, slice):
        return ("slice", obj.start, obj.stop, obj.step)
    if isinstance(obj, (int, float, str, bool, type(None), np.generic)):
        return (type(obj).__name__, repr(obj))
    if hasattr(obj, "__dict__"):
        return ("object", type(obj).__name__, tuple((k, snap(v, depth + 1)) for k, v in sorted(vars(obj).items()) if not k.startswith("__")))
    return ("other", repr(obj)[:200])


def rng_state():
    st = np.random.get_state()
    return (st[0], digest(st[1]), st[2], st[3], st[4], hash(random.getstate()))


def diff(a, b, path=""):
    """First differing path between two snapshots (for the witness)."""
    if a == b:
        return None
    if isinstance(a, tuple) and isinstance(b, tuple) and len(a) == len(b):
        for i, (x, y) in enumerate(zip(a, b)):
            d = diff(x, y, f"{path}/{i}" if not isinstance(x, str) else path)
            if d:
                return d
    return f"{path}: {str(a)[:120]} -> {str(b)[:120]}"


def deep(obj):
    return copy.deepcopy(obj)
