"""Loop model of a tensor grid and its finite-volume operators.

Written from the documented convention only (cells numbered in Fortran order of
their matrix multi-index; inner faces numbered axis by axis, within an axis in
Fortran order of the multi-index of the lower neighbour; fluxes oriented from the
lower- to the higher-index neighbour).  Deliberately explicit loops: no shifted
slices, no reshapes - so that it cannot share a slicing bug with the library.
"""

from __future__ import annotations

import itertools

import numpy as np


def all_shapes():
    out = [(n,) for n in range(1, 13)]
    out += [(a, b) for a in range(1, 8) for b in range(1, 8)]
    out += [(a, b, c) for a in range(1, 6) for b in range(1, 6) for c in range(1, 6)]
    return out


def fortran_multi_indices(shape):
    """Multi-indices in Fortran order (first index fastest)."""
    if any(s <= 0 for s in shape):
        return []
    rev = itertools.product(*[range(s) for s in reversed(shape)])
    return [tuple(reversed(m)) for m in rev]


class GridModel:
    def __init__(self, shape, voxel_size):
        self.shape = tuple(int(s) for s in shape)
        self.dim = len(self.shape)
        self.h = [float(v) for v in voxel_size]
        self.num_cells = 1
        for s in self.shape:
            self.num_cells *= s
        self.stride = []
        acc = 1
        for s in self.shape:
            self.stride.append(acc)
            acc *= s
        self.cells = fortran_multi_indices(self.shape)
        self.cell_of = {m: i for i, m in enumerate(self.cells)}
        # faces
        self.faces = []  # per axis list of face numbers
        self.face_lo = {}  # face -> multi-index of lower cell
        self.face_axis = {}
        self.connectivity = []
        n = 0
        for d in range(self.dim):
            fshape = list(self.shape)
            fshape[d] -= 1
            this = []
            for m in fortran_multi_indices(fshape):
                up = list(m)
                up[d] += 1
                self.connectivity.append((self.cell_of[m], self.cell_of[tuple(up)]))
                self.face_lo[n] = m
                self.face_axis[n] = d
                this.append(n)
                n += 1
            self.faces.append(this)
        self.num_faces = n
        self.reverse = -np.ones((self.dim, self.num_cells, 2), dtype=int)
        for f, (lo, hi) in enumerate(self.connectivity):
            d = self.face_axis[f]
            self.reverse[d, hi, 0] = f
            self.reverse[d, lo, 1] = f
        self.interior = []
        for d in range(self.dim):
            ins = []
            for f in self.faces[d]:
                m = self.face_lo[f]
                if all(1 <= m[e] <= self.shape[e] - 2 for e in range(self.dim) if e != d):
                    ins.append(f)
            self.interior.append(ins)
        self.volume = float(np.prod(self.h))
        self.area = [float(np.prod([self.h[e] for e in range(self.dim) if e != d])) for d in range(self.dim)]

    # ------------------------------------------------------------ operators
    def divergence(self, u):
        """(div u)_c = net outflow of cell c (flux times face area)."""
        out = np.zeros(self.num_cells)
        for f, (lo, hi) in enumerate(self.connectivity):
            a = self.area[self.face_axis[f]]
            out[lo] += a * u[f]
            out[hi] -= a * u[f]
        return out

    def divergence_matrix(self):
        D = np.zeros((self.num_cells, self.num_faces))
        for f, (lo, hi) in enumerate(self.connectivity):
            a = self.area[self.face_axis[f]]
            D[lo, f] += a
            D[hi, f] -= a
        return D

    def face_difference(self, p):
        """area * (p_hi - p_lo) per face."""
        return np.array([self.area[self.face_axis[f]] * (p[hi] - p[lo]) for f, (lo, hi) in enumerate(self.connectivity)])

    def face_to_cell(self, u, pt):
        """Linear interpolation between the two opposite faces of each cell; outer
        boundary faces carry zero flux."""
        out = np.zeros(self.shape + (self.dim,))
        for m in self.cells:
            c = self.cell_of[m]
            for d in range(self.dim):
                lo_face = self.reverse[d, c, 0]
                hi_face = self.reverse[d, c, 1]
                ulo = u[lo_face] if lo_face >= 0 else 0.0
                uhi = u[hi_face] if hi_face >= 0 else 0.0
                out[m + (d,)] = (1.0 - pt[d]) * ulo + pt[d] * uhi
        return out

    def cell_to_face(self, comp_fields, mode):
        """comp_fields[d]: flat (Fortran) cell values relevant for faces of axis d."""
        out = np.zeros(self.num_faces)
        for f, (lo, hi) in enumerate(self.connectivity):
            q = comp_fields[self.face_axis[f]]
            a, b = q[lo], q[hi]
            out[f] = 0.5 * (a + b) if mode == "arithmetic" else 2.0 * a * b / (a + b)
        return out

    def flat(self, arr):
        """Fortran flattening of a cell array by explicit loop."""
        return np.array([arr[m] for m in self.cells])
