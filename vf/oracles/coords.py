"""Literal axis-convention table and exact voxel<->coordinate reference maps.

Kept in /verif on purpose (not derived from darsia.interpret_indexing):
  1-D: x = ox + i*h0
  2-D: x = ox + j*h1 ; y = oy - i*h0
  3-D: x = ox + j*h1 ; y = oy - k*h2 ; z = oz - i*h0
This is the orientation pinned by the baseline tests (test_coordinatesystem,
test_dimension_reduction, the default origins of darsia.Image).
"""

from __future__ import annotations

from fractions import Fraction

import numpy as np

# TABLE[dim][c] = (matrix axis carrying Cartesian component c, sign)
TABLE = {
    1: [(0, +1)],
    2: [(1, +1), (0, -1)],
    3: [(1, +1), (2, -1), (0, -1)],
}
# the same table read the other way: MATRIX[dim][m] = (cartesian component, sign)
MATRIX = {d: [None] * d for d in TABLE}
for _d, rows in TABLE.items():
    for _c, (_m, _s) in enumerate(rows):
        MATRIX[_d][_m] = (_c, _s)

NAMES_C = "xyz"
NAMES_M = "ijk"


def default_origin(dim, dimensions):
    o = [0.0] * dim
    for c, (m, s) in enumerate(TABLE[dim]):
        if s < 0:
            o[c] = dimensions[m]
    return o


def voxel_size(shape, dimensions):
    return [dimensions[d] / shape[d] for d in range(len(shape))]


def coordinate(dim, shape, dimensions, origin, voxel):
    """Float reference: voxel (possibly fractional, any rows) -> coordinate."""
    v = np.atleast_2d(np.asarray(voxel, dtype=float))
    h = voxel_size(shape, dimensions)
    out = np.empty_like(v)
    for c, (m, s) in enumerate(TABLE[dim]):
        out[:, c] = origin[c] + s * v[:, m] * h[m]
    return out.reshape(np.shape(voxel))


def coord_tolerance(dim, shape, dimensions, origin, voxel):
    v = np.atleast_2d(np.abs(np.asarray(voxel, dtype=float)))
    h = voxel_size(shape, dimensions)
    eps = np.finfo(float).eps
    tol = np.empty_like(v)
    for c, (m, s) in enumerate(TABLE[dim]):
        tol[:, c] = 8 * eps * (abs(origin[c]) + v[:, m] * h[m] + abs(dimensions[m]))
    return tol.reshape(np.shape(voxel))


def exact_voxel(dim, shape, dimensions, origin, point):
    """Exact (rational) voxel index of one point and its distance (in voxel units)
    to the nearest voxel face along each matrix axis."""
    idx = [0] * dim
    dist = [0.0] * dim
    for c, (m, s) in enumerate(TABLE[dim]):
        h = Fraction(float(dimensions[m])) / Fraction(int(shape[m]))
        q = s * (Fraction(float(point[c])) - Fraction(float(origin[c]))) / h
        fl = q.numerator // q.denominator
        idx[m] = int(fl)
        frac = q - fl
        dist[m] = float(min(frac, 1 - frac))
    return idx, dist
