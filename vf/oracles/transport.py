"""Independent transport-cost functional and related reference quantities."""

from __future__ import annotations

import itertools
import math

import numpy as np

from vf.oracles.gridmodel import GridModel

RT_POINTS = {1: 5, 2: 4, 3: 3}  # points per direction of the rule selected by order "max"


def rule(dim, l1_mode):
    """Quadrature rule on the unit cell for the three documented l1 modes, built from
    numpy's Gauss-Legendre nodes (not from darsia.quadrature)."""
    if l1_mode == "RAVIART_THOMAS":
        x, w = np.polynomial.legendre.leggauss(RT_POINTS[dim])
        x = (x + 1) / 2
        w = w / 2
    elif l1_mode == "CONSTANT_SUBCELL_PROJECTION":
        x, w = np.array([0.0, 1.0]), np.array([0.5, 0.5])
    elif l1_mode == "CONSTANT_CELL_PROJECTION":
        x, w = np.array([0.5]), np.array([1.0])
    else:
        raise ValueError(l1_mode)
    pts = [np.array(p) for p in itertools.product(x, repeat=dim)]
    wts = [float(np.prod(ww)) for ww in itertools.product(w, repeat=dim)]
    return pts, wts


def cell_flux_arrays(M: GridModel, u):
    """lo/hi face flux per cell and axis (zero on the outer boundary), vectorised once."""
    lo = np.zeros((M.num_cells, M.dim))
    hi = np.zeros((M.num_cells, M.dim))
    for d in range(M.dim):
        fl = M.reverse[d, :, 0]
        fh = M.reverse[d, :, 1]
        lo[fl >= 0, d] = u[fl[fl >= 0]]
        hi[fh >= 0, d] = u[fh[fh >= 0]]
    return lo, hi


def transport_density(M: GridModel, u, l1_mode, cell_weight=1.0):
    """Per-cell quadrature of |weight * RT0 flux| (flat, Fortran cell order)."""
    lo, hi = cell_flux_arrays(M, np.asarray(u, float))
    pts, wts = rule(M.dim, l1_mode)
    dens = np.zeros(M.num_cells)
    for p, w in zip(pts, wts):
        vec = (1 - p)[None, :] * lo + p[None, :] * hi
        dens += w * np.sqrt(np.sum((cell_weight * vec) ** 2, axis=1))
    return dens


def cost(M: GridModel, u, l1_mode, cell_weight=1.0):
    d = transport_density(M, u, l1_mode, cell_weight)
    return math.fsum((d * M.volume).tolist())


def cell_centres(M: GridModel):
    """Matrix-index coordinates of cell centres scaled by voxel size: (num_cells, dim)."""
    return np.array([[(m[d] + 0.5) * M.h[d] for d in range(M.dim)] for m in M.cells])


def first_moment_bound(M: GridModel, mass_diff_flat, cell_weight=1.0):
    """| sum_c x_c * vol * (m2 - m1)_c |: lower bound for the cost of every mass-conserving
    flux under any positive rule that integrates linears exactly (times a constant weight)."""
    X = cell_centres(M)
    mom = np.array([math.fsum((X[:, d] * M.volume * mass_diff_flat).tolist()) for d in range(M.dim)])
    return cell_weight * float(np.linalg.norm(mom))
