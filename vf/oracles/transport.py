"""Independent transport-cost functional and related reference quantities."""

from __future__ import annotations

import itertools
import math

import numpy as np

from vf.oracles.gridmodel import GridModel

RT_POINTS = {1: 5, 2: 4, 3: 3}  # points per direction of the rule selected by order "max"


def rule(dim, l1_mode):
    """Quadrature rule on the unit cell for the three documented l1 modes, built from
    numpy's Gauss-Legendre nodes (not from darsia.quadrature)."""
    if l1_mode == "RAVIART_THOMAS":
        x, w = np.polynomial.legendre.leggauss(RT_POINTS[dim])
        x = (x + 1) / 2
        w = w / 2
    elif l1_mode == "CONSTANT_SUBCELL_PROJECTION":
        x, w = np.array([0.0, 1.0]), np.array([0.5, 0.5])
    elif l1_mode == "CONSTANT_CELL_PROJECTION":
        x, w = np.array([0.5]), np.array([1.0])
    else:
        raise ValueError(l1_mode)
    pts = [np.array(p) for p in itertools.product(x, repeat=dim)]
    wts = [float(np.prod(ww)) for ww in itertools.product(w, repeat=dim)]
    return pts, wts


def cell_flux_arrays(M: GridModel, u):
    """lo/hi face flux per cell and axis (zero on the outer boundary), vectorised once."""
    lo = np.zeros((M.num_cells, M.dim))
    hi = np.zeros((M.num_cells, M.dim))
    for d in range(M.dim):
        fl = M.reverse[d, :, 0]
        fh = M.reverse[d, :, 1]
        lo[fl >= 0, d] = u[fl[fl >= 0]]
        hi[fh >= 0, d] = u[fh[fh >= 0]]
    return lo, hi


def transport_density(M: GridModel, u, l1_mode, cell_weight=1.0):
    """Per-cell quadrature of |weight * RT0 flux| (flat, Fortran cell order)."""
    lo, hi = cell_flux_arrays(M, np.asarray(u, float))
    pts, wts = rule(M.dim, l1_mode)
    dens = np.zeros(M.num_cells)
    for p, w in zip(pts, wts):
        vec = (1 - p)[None, :] * lo + p[None, :] * hi
        dens += w * np.sqrt(np.sum((cell_weight * vec) ** 2, axis=1))
    return dens


def cost(M: GridModel, u, l1_mode, cell_weight=1.0):
    d = transport_density(M, u, l1_mode, cell_weight)
    return math.fsum((d * M.volume).tolist())


def cell_centres(M: GridModel):
    """Matrix-index coordinates of cell centres scaled by voxel size: (num_cells, dim)."""
    return np.array([[(m[d] + 0.5) * M.h[d] for d in range(M.dim)] for m in M.cells])


def first_moment_bound(M: GridModel, mass_diff_flat, cell_weight=1.0):
    """| sum_c x_c * vol * (m2 - m1)_c |: lower bound for the cost of every mass-conserving
    flux under any positive rule that integrates linears exactly (times a constant weight)."""
    X = cell_centres(M)
    mom = np.array([math.fsum((X[:, d] * M.volume * mass_diff_flat).tolist()) for d in range(M.dim)])
    return cell_weight * float(np.linalg.norm(mom))


# ---------------------------------------------------------------------------
# Certified lower bound of  min { cost(u) : div u = f }  by weak duality.
# cost(u) = sum_{c,q} vol * w_q * | cw * B_cq u |   (B_cq u = RT0 flux at quadrature point q of cell c)
# For any z_cq with |z_cq| <= 1 and any p with  sum vol*w_q*cw * B_cq^T z_cq = D^T p :
#     cost(u) >= <p, D u> = <p, f>   for every mass-conserving u.
# The pair (z, p) is built from an approximate minimiser of the smoothed problem and then
# made feasible exactly (kernel component removed, then scaled into the unit balls), so the
# bound is sound whatever the quality of the minimisation.
def _B_matrices(M: GridModel, l1_mode):
    pts, wts = rule(M.dim, l1_mode)
    rows = []  # (weight, matrix dim x num_faces)
    for c in range(M.num_cells):
        for p, w in zip(pts, wts):
            B = np.zeros((M.dim, M.num_faces))
            for d in range(M.dim):
                fl, fh = M.reverse[d, c, 0], M.reverse[d, c, 1]
                if fl >= 0:
                    B[d, fl] += 1 - p[d]
                if fh >= 0:
                    B[d, fh] += p[d]
            rows.append((w * M.volume, B))
    return rows


def certified_lower_bound(M: GridModel, f_flat, l1_mode, cell_weight=1.0, starts=3, seed=0):
    """Returns (bound, info). f_flat = integrated mass difference per cell (Fortran order)."""
    import scipy.linalg as sla
    import scipy.optimize as sopt

    D = M.divergence_matrix()
    nf = M.num_faces
    if nf == 0:
        return 0.0, {"cycles": 0}
    u0 = np.linalg.lstsq(D, f_flat, rcond=None)[0]
    Z = sla.null_space(D)
    rows = _B_matrices(M, l1_mode)
    W = np.array([w for w, _ in rows]) * abs(cell_weight)
    Bs = np.stack([B for _, B in rows])  # (K, dim, nf)
    scale = max(float(np.sum(W)) * max(float(np.max(np.abs(u0))), 1e-300), 1e-300)
    eps = 1e-7 * max(float(np.max(np.abs(u0))), 1e-12)

    def g(y):
        u = u0 + Z @ y if Z.shape[1] else u0
        v = Bs @ u  # (K, dim)
        n = np.sqrt(np.sum(v * v, axis=1) + eps * eps)
        val = float(np.sum(W * n))
        grad_u = np.einsum("k,kd,kdf->f", W / n, v, Bs)
        return val, (Z.T @ grad_u if Z.shape[1] else np.zeros(0))

    best_y = np.zeros(Z.shape[1])
    if Z.shape[1]:
        rng = np.random.default_rng(seed)
        best = None
        for s in range(starts):
            y0 = np.zeros(Z.shape[1]) if s == 0 else rng.standard_normal(Z.shape[1]) * float(np.max(np.abs(u0)))
            r = sopt.minimize(lambda y: g(y), y0, jac=True, method="BFGS", options={"gtol": 1e-12 * scale, "maxiter": 2000})
            if best is None or r.fun < best.fun:
                best = r
        best_y = best.x
    u = u0 + Z @ best_y if Z.shape[1] else u0
    v = Bs @ u
    n = np.sqrt(np.sum(v * v, axis=1) + eps * eps)
    z = v / n[:, None]  # |z| < 1
    # dual variable in face space: gvec = sum_k W_k B_k^T z_k ; remove its kernel component by a
    # least-norm correction of z, then rescale into the unit balls (the constraint is homogeneous)
    A = np.einsum("k,kdf->fkd", W, Bs).reshape(nf, -1)  # gvec = A @ z.ravel()
    zr = z.reshape(-1)
    if Z.shape[1]:
        C = Z.T @ A  # kernel component = C zr ; want 0
        corr = np.linalg.lstsq(C, C @ zr, rcond=None)[0]
        zr = zr - corr
    zz = zr.reshape(z.shape)
    s = max(1.0, float(np.max(np.sqrt(np.sum(zz * zz, axis=1)))))
    zz = zz / s
    gvec = A @ zz.reshape(-1)
    p = np.linalg.lstsq(D.T, gvec, rcond=None)[0]
    infeas = float(np.max(np.abs(D.T @ p - gvec)))
    bound = float(p @ f_flat)
    primal = float(np.sum(W * np.sqrt(np.sum(v * v, axis=1))))
    return bound, {"cycles": int(Z.shape[1]), "primal_upper": primal, "dual_infeasibility": infeas, "scale_factor": s, "eps": eps}


def unique_flux_thin_grid(M: GridModel, f_flat):
    """On 1-D and one-cell-thin grids mass conservation determines the flux: prefix sums."""
    long_axes = [d for d in range(M.dim) if M.shape[d] > 1]
    assert len(long_axes) <= 1
    u = np.zeros(M.num_faces)
    if not long_axes:
        return u
    d = long_axes[0]
    acc = 0.0
    # cells ordered along the long axis; face between cell i and i+1 carries the prefix sum
    order = sorted(range(M.num_cells), key=lambda c: M.cells[c][d])
    face_after = {}
    for f in M.faces[d]:
        lo, hi = M.connectivity[f]
        face_after[lo] = f
    terms = []
    for c in order[:-1]:
        terms.append(f_flat[c])
        u[face_after[c]] = math.fsum(terms) / M.area[d]
    return u
