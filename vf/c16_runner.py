"""Executes one call history in a fresh interpreter and prints the full result
digest of every call as JSON lines (boundary log of C16).

Objects named in ENV persist across the calls of a history (that is the point);
the library's module-level default solver instances persist by themselves.
"""

from __future__ import annotations

import json
import sys
import warnings

import numpy as np


def build_alphabet(darsia):
    rng0 = np.random.default_rng(12345)
    IMG_A = rng0.random((12, 10))
    IMG_B = rng0.random((9, 14))
    IMG_C = rng0.random((8, 8, 3))
    RHS_A = rng0.random((12, 10))
    COEF_M = 0.5 + rng0.random((12, 10))
    COEF_D = 0.5 + rng0.random((12, 10))
    VOL_A = rng0.random((6, 5, 4))
    RHS_V = rng0.random((6, 5, 4))
    ENV = {}

    def shared(name, ctor):
        if name not in ENV:
            ENV[name] = ctor()
        return ENV[name]

    def jac(mass, diff, h):
        J = shared("J", lambda: darsia.Jacobi(maxiter=5, mass_coeff=1.0, diffusion_coeff=1.0, dim=2))
        J.update_params(mass_coeff=mass, diffusion_coeff=diff, dim=2)
        return J(IMG_A.copy(), RHS_A.copy(), h=h)

    def jac_arrays(h):
        # a Jacobi object with array-valued (heterogeneous) coefficients - the caller's own arrays - and a grid spacing
        JA = shared("JARR", lambda: darsia.Jacobi(maxiter=5, mass_coeff=COEF_M, diffusion_coeff=COEF_D, dim=2))
        return JA(IMG_A.copy(), RHS_A.copy(), h=h)

    def jac3d(mass, diff, h):
        # the same shared Jacobi object, now in 3-D with otherwise identical parameters
        J = shared("J", lambda: darsia.Jacobi(maxiter=5, mass_coeff=1.0, diffusion_coeff=1.0, dim=2))
        J.update_params(mass_coeff=mass, diffusion_coeff=diff, dim=3)
        return J(VOL_A.copy(), RHS_V.copy(), h=h)

    def h1_3d(mu, explicit=False):
        if explicit:
            S = shared("H1S", lambda: darsia.Jacobi(maxiter=8))
            return darsia.H1_regularization(VOL_A.copy(), mu=mu, omega=1.0, dim=3, solver=S)
        return darsia.H1_regularization(VOL_A.copy(), mu=mu, omega=1.0, dim=3)

    def mg(mass, diff):
        G = shared("MG", lambda: darsia.MG(depth=1, smoother_iterations=2, maxiter=2, mass_coeff=1.0, diffusion_coeff=1.0, dim=2))
        G.update_params(mass_coeff=mass, diffusion_coeff=diff, dim=2)
        return G(IMG_A.copy(), RHS_A.copy())

    def mg2(small):
        # one explicit two-level MG object: a small image (too small for two levels - the call may be refused) and
        # the regular image
        G = shared("MG2", lambda: darsia.MG(depth=2, smoother_iterations=2, maxiter=2, mass_coeff=1.0, diffusion_coeff=1.0, dim=2))
        if small:
            return G(IMG_A[:6, :5].copy(), RHS_A[:6, :5].copy())
        return G(IMG_A.copy(), RHS_A.copy())

    def mg2_het(small):
        # one explicit two-level MG object with array-valued coefficients: a request it refuses (an image that does not
        # fit its coefficients), and the regular image
        G = shared("MG2H", lambda: darsia.MG(depth=2, smoother_iterations=2, maxiter=2, mass_coeff=COEF_M.copy(), diffusion_coeff=COEF_D.copy(), dim=2))
        if small:
            return G(IMG_A[:6, :5].copy(), RHS_A[:6, :5].copy())
        return G(IMG_A.copy(), RHS_A.copy())

    def mg_het():
        G = shared("MGH", lambda: darsia.MG(depth=1, smoother_iterations=2, maxiter=2, mass_coeff=COEF_M.copy(), diffusion_coeff=COEF_D.copy(), dim=2))
        return G(IMG_A.copy(), RHS_A.copy())

    def h1(img, mu, omega=1.0, explicit=False):
        if explicit:
            S = shared("H1S", lambda: darsia.Jacobi(maxiter=8))
            return darsia.H1_regularization(img.copy(), mu=mu, omega=omega, dim=2, solver=S)
        return darsia.H1_regularization(img.copy(), mu=mu, omega=omega, dim=2)

    def h1_mg(mu):
        S = shared("H1MG", lambda: darsia.MG(depth=1, smoother_iterations=2, maxiter=2))
        return darsia.H1_regularization(IMG_A.copy(), mu=mu, omega=1.0, dim=2, solver=S)

    ARRS = {"A": (0.5 + rng0.random((12, 10)), 0.5 + rng0.random((12, 10))), "B": (0.5 + rng0.random((12, 10)), 0.5 + rng0.random((12, 10)))}

    def h1_mg_arrays(which):
        # one explicit heterogeneous MG solver, fed with different coefficient arrays of the same shape
        S = shared("H1MGARR", lambda: darsia.MG(depth=1, smoother_iterations=2, maxiter=2, mass_coeff=COEF_M.copy(), diffusion_coeff=COEF_D.copy(), dim=2))
        om, mu = ARRS[which]
        return darsia.H1_regularization(IMG_A.copy(), mu=mu.copy(), omega=om.copy(), dim=2, solver=S)

    def mg_update_arrays(which):
        G = shared("MGUPD", lambda: darsia.MG(depth=2, smoother_iterations=2, maxiter=1, mass_coeff=COEF_M.copy(), diffusion_coeff=COEF_D.copy(), dim=2))
        om, mu = ARRS[which]
        G.update_params(mass_coeff=om.copy(), diffusion_coeff=mu.copy(), dim=2)
        return G(IMG_A.copy(), RHS_A.copy())

    def mg_update_scalar():
        G = shared("MGUPD", lambda: darsia.MG(depth=2, smoother_iterations=2, maxiter=1, mass_coeff=COEF_M.copy(), diffusion_coeff=COEF_D.copy(), dim=2))
        G.update_params(mass_coeff=0.4, diffusion_coeff=0.7, dim=2)
        return G(IMG_A.copy(), RHS_A.copy())

    def sb_caller_arrays(which):
        # the caller keeps one coefficient array for the regularisation (and one for the data weight) and hands the very
        # same objects to successive calls; the schedule adapts the regularisation during the iteration
        ell_arr = shared("SB_ELL", lambda: 0.5 + np.random.default_rng(5).random(IMG_A.shape))
        om_arr = shared("SB_OMEGA", lambda: 0.5 + np.random.default_rng(6).random(IMG_A.shape))
        img = IMG_A if which == "A" else IMG_A[::-1]
        return darsia.split_bregman_tvd(img.copy(), mu=0.5, omega=om_arr, ell=ell_arr, dim=2, max_num_iter=3, adaptive=lambda it: it % 2 == 1)

    def sb(img, mu, ell=None, explicit=False):
        kw = dict(mu=mu, omega=1.0, ell=ell, dim=2, max_num_iter=3)
        if explicit:
            kw["solver"] = shared("SBS", lambda: darsia.Jacobi(maxiter=4))
        return darsia.split_bregman_tvd(img.copy(), **kw)

    def tvd(weight, method):
        return darsia.tvd(IMG_A.copy(), method=method, weight=weight, max_num_iter=5, eps=1e-12, **({"omega": 1.0, "dim": 2} if method == "heterogeneous bregman" else {}))

    def tvd_object(which):
        # one TVD object (as used for the restoration stage of an analysis) with non-default forwarded options, applied
        # to successive images
        T = shared("TVDOBJ", lambda: darsia.TVD(method="heterogeneous bregman", weight=0.3, omega=1.0, max_num_iter=4, eps=1e-12, dim=2, isotropic=True,
                                                solver=darsia.Jacobi(maxiter=3)))
        return T((IMG_A if which == "A" else IMG_A[::-1]).copy())

    def tvd_object_x0():
        # one TVD object constructed with an initial guess (image and split variables) for its iteration
        def make():
            r = np.random.default_rng(77)
            d0 = 0.05 * r.standard_normal((*IMG_A.shape, 2))
            b0 = 0.05 * r.standard_normal((*IMG_A.shape, 2))
            return darsia.TVD(method="heterogeneous bregman", weight=0.3, omega=1.0, max_num_iter=3, eps=1e-12, dim=2, x0=(IMG_A.copy(), d0, b0))

        T = shared("TVDX0", make)
        return T(IMG_A.copy())

    def anderson(seed, n):
        A = shared("AA", lambda: darsia.AndersonAcceleration(dimension=None, depth=2, restart=3))
        r = np.random.default_rng(seed)
        Mx = 0.5 * np.eye(6) + 0.05 * r.standard_normal((6, 6))
        bvec = r.standard_normal(6)
        x = np.zeros(6)
        for it in range(n):  # crosses restart boundaries at iteration 3, 6
            g = Mx @ x + bvec
            x = A(g, g - x, it)
        return x

    def anderson_window(depth, restart, first, last, seed):
        # calls number first..last-1 of a longer iteration, with prescribed (g_k, f_k); `first` is a restart boundary,
        # so the result may depend on nothing before it
        A = shared(f"AAW{depth}/{restart}", lambda: darsia.AndersonAcceleration(dimension=None, depth=depth, restart=restart))
        r = np.random.default_rng(seed)
        out = []
        for it in range(first, last):
            g, f = r.standard_normal(6), r.standard_normal(6)
            out.append(A(g, f, it))
        return np.concatenate(out)

    def wass(kind, pair, shape=(4, 5), vs=(1.0, 0.75), scribble=False):
        from vf.gen import wass as W

        if kind.endswith("_big") or kind.endswith("_big_aa"):
            shape = (8, 9)  # 72 cells: the reduced matrices are no longer stored with sorted indices
        if kind.endswith("_shared_options"):
            shape = (12, 11)
        if kind.endswith("_multilevel"):
            shape = (12, 11)  # 132 cells: pyamg builds a genuine hierarchy (more than max_coarse unknowns)

        r = np.random.default_rng(100 + pair)
        a, b = W.mass_pair(r, shape, "dense")
        m1, m2 = W.images(darsia, a, b, [1.0 + 0.25 * pair, 0.75])
        cfg = {
            "newton_direct": ("newton", "pressure", "direct", 0),
            "newton_amg_aa": ("newton", "pressure", "amg", 2),
            "bregman_direct": ("bregman", "full", "direct", 0),
            "bregman_amg": ("bregman", "pressure", "amg", 0),
            "adaptive_cg_aa": ("bregman_adaptive", "pressure", "cg", 2),
            "bregman_direct_aa": ("bregman", "pressure", "direct", 2),
            "adaptive_homogeneous": ("bregman_adaptive", "pressure", "direct", 0),
            "bregman_L2": ("bregman", "pressure", "direct", 0),
            "bregman_L2_flux_reduced": ("bregman", "flux_reduced", "direct", 0),
            "bregman_amg_custom": ("bregman", "pressure", "amg", 0),
            "bregman_big": ("bregman", "pressure", "direct", 0),
            "bregman_amg_multilevel": ("bregman", "pressure", "amg", 0),
            "newton_cg_multilevel": ("newton", "pressure", "cg", 0),
            "bregman_big_aa": ("bregman", "pressure", "direct", 2),
            "newton_big": ("newton", "pressure", "direct", 0),
            "newton_aa_restart": ("newton", "full", "direct", 3),
            "bregman_cg_shared_options": ("bregman", "pressure", "cg", 0),
            "bregman_amg_shared_options": ("bregman", "pressure", "amg", 0),
        }[kind]

        def ctor():
            opt = W.make_options(darsia, cfg[0], "RAVIART_THOMAS", "CELL_BASED", cfg[1], cfg[2], cfg[3], 5 if kind != "adaptive_homogeneous" else 7)
            if kind == "adaptive_homogeneous":
                # one homogeneous penalty, adapted late in the run; the user-given L is far from the adapted value
                opt.update({"bregman_homogeneous": True, "L": 10.0, "bregman_update": lambda it: it % 3 == 2})
            if kind.endswith("_shared_options"):
                # the caller keeps one dictionary of linear-solver options (only the iteration cap is set) and hands it to
                # every solver he builds, whatever the back-end
                opt["linear_solver_options"] = shared("LSO", lambda: {"maxiter": 200})
            if kind == "newton_aa_restart":
                opt.update({"aa_restart": 2})
            if kind.startswith("bregman_L2"):
                opt.update({"L": 2.0})
            if kind == "bregman_amg_custom":
                # user-defined pyamg set-up forcing a genuine hierarchy on this small system
                opt.update({"amg_options": {"max_coarse": 5, "max_levels": 3}})
            return W.solver_class(darsia, cfg[0])(darsia.Grid(shape, list(vs)), None, opt)

        # the grid (shape) is fixed per object; voxel sizes of the images must match the object
        m1, m2 = W.images(darsia, a, b, list(vs))
        w1 = shared("W:" + kind + ("" if tuple(vs) == (1.0, 0.75) else ":" + str(tuple(vs))), ctor)
        if kind == "bregman_amg_custom":
            np.random.seed(0)  # pyamg's multilevel set-up draws from the global generator
        d, info = w1(m1, m2)
        out = np.concatenate([[d], np.asarray(info["flux"]).ravel(), np.asarray(info["pressure"]).ravel()])
        if scribble:
            # the caller post-processes what he was handed out, in place (every array of the info dictionary)
            for v_ in info.values():
                if isinstance(v_, np.ndarray) and v_.dtype.kind == "f" and v_.flags.writeable:
                    v_ *= 0.5
                    v_ += 1.0
        return out

    A = {
        "jac_h1": lambda: jac(1.0, 1.0, 1.0),
        "jac_h05": lambda: jac(1.0, 1.0, 0.5),
        "jac_params": lambda: jac(2.0, 3.0, 1.0),
        "jac_3d": lambda: jac3d(1.0, 1.0, 1.0),
        "h1_3d_mu1": lambda: h1_3d(1.0),
        "h1_3d_explicit_mu1": lambda: h1_3d(1.0, explicit=True),
        "mg_a": lambda: mg(1.0, 1.0),
        "mg_b": lambda: mg(2.0, 0.3),
        "mg_het": mg_het,
        "h1_mu1": lambda: h1(IMG_A, 1.0),
        "h1_mu10": lambda: h1(IMG_A, 10.0),
        "h1_mu10_omega3": lambda: h1(IMG_A, 10.0, 3.0),
        "h1_shapeB": lambda: h1(IMG_B, 2.0),
        "h1_rgb": lambda: h1(IMG_C, 2.0),
        "h1_explicit_mu10": lambda: h1(IMG_A, 10.0, explicit=True),
        "h1_explicit_mu1": lambda: h1(IMG_A, 1.0, explicit=True),
        "h1_mg_mu1": lambda: h1_mg(1.0),
        "h1_mg_mu5": lambda: h1_mg(5.0),
        "sb_mu05": lambda: sb(IMG_A, 0.5),
        "sb_mu2_ell1": lambda: sb(IMG_A, 2.0, 1.0),
        "sb_shapeB": lambda: sb(IMG_B, 0.5),
        "sb_explicit": lambda: sb(IMG_A, 0.7, explicit=True),
        "tvd_chambolle": lambda: tvd(0.2, "chambolle"),
        "tvd_het": lambda: tvd(0.3, "heterogeneous bregman"),
        "tvd_obj_A": lambda: tvd_object("A"),
        "tvd_obj_x0": tvd_object_x0,
        "tvd_obj_B": lambda: tvd_object("B"),
        "aa_seq1": lambda: anderson(1, 8),
        "aa_d2r3_head": lambda: anderson_window(2, 3, 0, 3, 11),
        "aa_d2r3_tail": lambda: anderson_window(2, 3, 3, 6, 12),
        "aa_d3r2_head": lambda: anderson_window(3, 2, 0, 2, 13),
        "aa_d3r2_tail": lambda: anderson_window(3, 2, 2, 4, 14),
        "mg2_small": lambda: mg2(True),
        "mg2_regular": lambda: mg2(False),
        "w_bregman_L2_A": lambda: wass("bregman_L2", 0),
        "w_bregman_L2_B": lambda: wass("bregman_L2", 1),
        "w_bregman_L2fr_A": lambda: wass("bregman_L2_flux_reduced", 0),
        "w_bregman_L2fr_B": lambda: wass("bregman_L2_flux_reduced", 1),
        "w_bregman_amg_custom": lambda: wass("bregman_amg_custom", 0),
        "w_bregman_big_A": lambda: wass("bregman_big", 0),
        "w_bregman_big_B": lambda: wass("bregman_big", 1),
        "w_bregman_big_aa_A": lambda: wass("bregman_big_aa", 0),
        "w_bregman_big_aa_B": lambda: wass("bregman_big_aa", 1),
        "w_newton_big_A": lambda: wass("newton_big", 0),
        "w_newton_big_B": lambda: wass("newton_big", 1),
        "w_bregman_amg_multilevel_A": lambda: wass("bregman_amg_multilevel", 0),
        "w_bregman_amg_multilevel_B": lambda: wass("bregman_amg_multilevel", 1),
        "w_newton_cg_multilevel_A": lambda: wass("newton_cg_multilevel", 0),
        "w_adaptive_homog_A": lambda: wass("adaptive_homogeneous", 0),
        "w_adaptive_homog_B": lambda: wass("adaptive_homogeneous", 1),
        "w_newton_aa_restart_A": lambda: wass("newton_aa_restart", 0),
        "w_newton_aa_restart_B": lambda: wass("newton_aa_restart", 1),
        "aa_seq2": lambda: anderson(2, 5),
        "w_newton_A": lambda: wass("newton_direct", 0),
        "w_newton_B": lambda: wass("newton_direct", 1),
        "w_newton_amg_aa_A": lambda: wass("newton_amg_aa", 0),
        "w_newton_amg_aa_B": lambda: wass("newton_amg_aa", 1),
        "w_bregman_A": lambda: wass("bregman_direct", 0),
        "w_bregman_B": lambda: wass("bregman_direct", 1),
        "w_bregman_amg_A": lambda: wass("bregman_amg", 0),
        "w_bregman_amg_B": lambda: wass("bregman_amg", 1),
        "w_adaptive_A": lambda: wass("adaptive_cg_aa", 0),
        "w_adaptive_B": lambda: wass("adaptive_cg_aa", 1),
        "w_bregman_aa_A": lambda: wass("bregman_direct_aa", 0),
        "w_bregman_aa_B": lambda: wass("bregman_direct_aa", 1),
        "h1_mgarr_A": lambda: h1_mg_arrays("A"),
        "h1_mgarr_B": lambda: h1_mg_arrays("B"),
        "mg_upd_A": lambda: mg_update_arrays("A"),
        "mg_upd_B": lambda: mg_update_arrays("B"),
        "mg_upd_scalar": mg_update_scalar,
        "jac_arrays_h05": lambda: jac_arrays(0.5),
        "mg2het_refused": lambda: mg2_het(True),
        "mg2het_regular": lambda: mg2_het(False),
        "w_cg_shared_options": lambda: wass("bregman_cg_shared_options", 0),
        "w_amg_shared_options": lambda: wass("bregman_amg_shared_options", 0),
        "jac_arrays_h1": lambda: jac_arrays(1.0),
        # independent solver objects on a grid with the same voxel counts and another physical size
        "w_newton_other_domain": lambda: wass("newton_direct", 0, vs=(2.0, 0.5)),
        "w_newton_outputs_modified": lambda: wass("newton_direct", 0, scribble=True),
        "w_bregman_outputs_modified": lambda: wass("bregman_direct", 0, scribble=True),
        "w_bregman_other_domain": lambda: wass("bregman_direct", 0, vs=(2.0, 0.5)),
        "sb_caller_arrays_A": lambda: sb_caller_arrays("A"),
        "sb_caller_arrays_B": lambda: sb_caller_arrays("B"),
    }
    return A


LETTERS = [
    "jac_h1", "jac_h05", "jac_params", "jac_3d", "h1_3d_mu1", "h1_3d_explicit_mu1", "mg_a", "mg_b", "mg_het", "h1_mu1", "h1_mu10", "h1_mu10_omega3", "h1_shapeB", "h1_rgb",
    "h1_explicit_mu10", "h1_explicit_mu1", "h1_mg_mu1", "h1_mg_mu5", "sb_mu05", "sb_mu2_ell1", "sb_shapeB", "sb_explicit", "tvd_chambolle",
    "tvd_het", "aa_seq1", "aa_seq2", "w_newton_A", "w_newton_B", "w_newton_amg_aa_A", "w_newton_amg_aa_B", "w_bregman_A", "w_bregman_B",
    "w_bregman_amg_A", "w_bregman_amg_B", "w_adaptive_A", "w_adaptive_B", "w_bregman_aa_A", "w_bregman_aa_B", "h1_mgarr_A", "h1_mgarr_B", "mg_upd_A", "mg_upd_B",
    "aa_d2r3_head", "aa_d2r3_tail", "aa_d3r2_head", "aa_d3r2_tail", "w_adaptive_homog_A", "w_adaptive_homog_B", "w_newton_aa_restart_A", "w_newton_aa_restart_B",
    "mg2_small", "mg2_regular", "w_bregman_L2_A", "w_bregman_L2_B", "w_bregman_L2fr_A", "w_bregman_L2fr_B", "w_bregman_amg_custom",
    "w_bregman_big_A", "w_bregman_big_B", "w_bregman_big_aa_A", "w_bregman_big_aa_B", "w_newton_big_A", "w_newton_big_B",
    "tvd_obj_A", "tvd_obj_B", "tvd_obj_x0", "w_bregman_amg_multilevel_A", "w_bregman_amg_multilevel_B", "w_newton_cg_multilevel_A",
    "mg_upd_scalar", "sb_caller_arrays_A", "sb_caller_arrays_B", "w_newton_other_domain", "w_bregman_other_domain", "w_newton_outputs_modified", "w_bregman_outputs_modified", "jac_arrays_h05", "jac_arrays_h1", "w_cg_shared_options", "w_amg_shared_options", "mg2het_refused", "mg2het_regular",
]
# letters that can share state with each other (same object or same module-level default)
GROUPS = {
    "jacobi": ["jac_h1", "jac_h05", "jac_params", "jac_3d"],
    "mg": ["mg_a", "mg_b"],
    "mg_two_level_heterogeneous": ["mg2het_refused", "mg2het_regular"],
    "w_shared_linear_solver_options": ["w_cg_shared_options", "w_amg_shared_options"],
    "jacobi_arrays": ["jac_arrays_h05", "jac_arrays_h1", "mg_het", "h1_mgarr_A"],
    "mg_het": ["mg_het"],
    "default_solver": ["h1_mu1", "h1_mu10", "h1_mu10_omega3", "h1_shapeB", "h1_rgb", "sb_mu05", "sb_mu2_ell1", "sb_shapeB", "tvd_het", "h1_3d_mu1"],
    "h1_explicit": ["h1_explicit_mu10", "h1_explicit_mu1", "h1_3d_explicit_mu1"],
    "h1_mg": ["h1_mg_mu1", "h1_mg_mu5"],
    "sb_explicit": ["sb_explicit"],
    "tvd_object": ["tvd_obj_A", "tvd_obj_B"],
    "tvd_object_x0": ["tvd_obj_x0"],
    "w_amg_multilevel": ["w_bregman_amg_multilevel_A", "w_bregman_amg_multilevel_B", "w_newton_cg_multilevel_A", "w_bregman_amg_custom"],
    "tvd": ["tvd_chambolle"],
    "anderson": ["aa_seq1", "aa_seq2"],
    "w_newton": ["w_newton_A", "w_newton_B", "w_newton_other_domain", "w_newton_outputs_modified"],
    "w_newton_amg_aa": ["w_newton_amg_aa_A", "w_newton_amg_aa_B"],
    "w_bregman": ["w_bregman_A", "w_bregman_B", "w_bregman_other_domain", "w_bregman_outputs_modified"],
    "w_bregman_amg": ["w_bregman_amg_A", "w_bregman_amg_B", "w_bregman_amg_custom"],
    "mg_two_level": ["mg2_small", "mg2_regular"],
    "w_bregman_L2": ["w_bregman_L2_A", "w_bregman_L2_B"],
    "w_bregman_big": ["w_bregman_big_A", "w_bregman_big_B"],
    "w_bregman_big_aa": ["w_bregman_big_aa_A", "w_bregman_big_aa_B"],
    "w_newton_big": ["w_newton_big_A", "w_newton_big_B"],
    "w_bregman_L2_flux_reduced": ["w_bregman_L2fr_A", "w_bregman_L2fr_B"],
    "w_adaptive": ["w_adaptive_A", "w_adaptive_B"],
    "w_bregman_aa": ["w_bregman_aa_A", "w_bregman_aa_B"],
    "h1_mg_arrays": ["h1_mgarr_A", "h1_mgarr_B"],
    "mg_update_arrays": ["mg_upd_A", "mg_upd_B", "mg_upd_scalar"],
    "sb_caller_arrays": ["sb_caller_arrays_A", "sb_caller_arrays_B"],
    "anderson_boundary_d2r3": ["aa_d2r3_head", "aa_d2r3_tail"],
    "anderson_boundary_d3r2": ["aa_d3r2_head", "aa_d3r2_tail"],
    "w_adaptive_homogeneous": ["w_adaptive_homog_A", "w_adaptive_homog_B"],
    "w_newton_aa_restart": ["w_newton_aa_restart_A", "w_newton_aa_restart_B"],
}


def main(argv):
    warnings.filterwarnings("ignore")
    histories = json.loads(open(argv[0]).read())
    import darsia

    from vf.events import digest

    # one fresh interpreter may run several histories only if explicitly asked (not used by the check)
    for hist in histories[:1]:
        A = build_alphabet(darsia)
        for pos, letter in enumerate(hist):
            try:
                out = A[letter]()
                arr = out.img if hasattr(out, "img") else np.asarray(out)
                rec = {"pos": pos, "op": letter, "digest": digest(arr), "shape": list(arr.shape), "finite": bool(np.all(np.isfinite(arr)))}
            except Exception as e:  # an exception is a result too
                rec = {"pos": pos, "op": letter, "digest": f"EXC:{type(e).__name__}:{str(e)[:80]}", "shape": None, "finite": False}
            print("C16EVENT " + json.dumps(rec), flush=True)
    return 0


if __name__ == "__main__":
    sys.exit(main(sys.argv[1:]))
